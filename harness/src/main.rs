mod ops;
mod proj;
mod sweeps;
mod tla;

use serde_json::{json, Value};
use std::io::{BufRead, BufWriter, Write};

fn main() {
    // a panic of the code under test is caught in ops::exec and recorded as
    // data; keep the default hook quiet so that stderr stays readable
    std::panic::set_hook(Box::new(|info| {
        let msg = info.to_string();
        if msg.contains("harness:") {
            eprintln!("{}", msg);
        }
    }));
    let args: Vec<String> = std::env::args().collect();
    if args.len() < 2 {
        eprintln!("usage: vh <exec|daysweep|events|replay> ...");
        std::process::exit(2);
    }
    match args[1].as_str() {
        // stdin: one {"op":..,"a":[..]} per line; stdout: the same with "r" (logged form)
        "exec" => {
            let stdin = std::io::stdin();
            let mut out = BufWriter::new(std::io::stdout());
            for line in stdin.lock().lines() {
                let line = line.unwrap();
                if line.trim().is_empty() {
                    continue;
                }
                let v: Value = serde_json::from_str(&line).expect("harness: bad json line");
                let op = v["op"].as_str().unwrap().to_string();
                let a = v["a"].as_array().cloned().unwrap_or_default();
                let r = ops::exec(&op, &a);
                writeln!(out, "{}", json!({"op": op, "a": proj::saturate(&Value::Array(a)), "r": r})).unwrap();
                out.flush().unwrap(); // interactive use: one answer per request
            }
        }
        "daysweep" => sweeps::daysweep(&args[2..]),
        "events" => sweeps::events(&args[2..]),
        "replay" => tla::replay(&args[2..]),
        other => {
            eprintln!("unknown subcommand {}", other);
            std::process::exit(2);
        }
    }
}
