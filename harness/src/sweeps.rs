//! Recorders (impl -> spec): call the real crate over enumerated inputs and
//! write what was observed as ndjson.  The recorders contain no oracle - the
//! TLA+ trace specifications judge the records.
use crate::ops::exec;
use crate::proj::*;
use serde_json::{json, Value};
use sqldatetime::*;
use std::fmt::Write as _;
use std::io::{BufWriter, Write};
use std::panic::{catch_unwind, AssertUnwindSafe};

pub struct Rng(pub u64);
impl Rng {
    pub fn next(&mut self) -> u64 {
        // splitmix64
        self.0 = self.0.wrapping_add(0x9E3779B97F4A7C15);
        let mut z = self.0;
        z = (z ^ (z >> 30)).wrapping_mul(0xBF58476D1CE4E5B9);
        z = (z ^ (z >> 27)).wrapping_mul(0x94D049BB133111EB);
        z ^ (z >> 31)
    }
    pub fn below(&mut self, n: u64) -> u64 {
        self.next() % n
    }
    pub fn range(&mut self, lo: i64, hi: i64) -> i64 {
        lo + self.below((hi - lo + 1) as u64) as i64
    }
}

pub fn flag<'a>(a: &'a [String], name: &str) -> Option<&'a str> {
    a.iter().position(|x| x == name).and_then(|i| a.get(i + 1)).map(|s| s.as_str())
}

fn cu<F: FnOnce() -> String>(f: F) -> String {
    match catch_unwind(AssertUnwindSafe(f)) {
        Ok(s) => s,
        Err(_) => "[2,0]".to_string(),
    }
}
fn rs_date(r: Result<Date, Error>) -> String {
    match r {
        Ok(d) => format!("[0,{}]", d.days()),
        Err(e) => format!("[1,{}]", err_code(&e)),
    }
}
fn t3(us: i64) -> String {
    let (d, s, u) = split_us(us as i128);
    format!("[{},{},{}]", d, s, u)
}
fn rs_ts(r: Result<Timestamp, Error>) -> String {
    match r {
        Ok(t) => format!("[0,{}]", t3(t.usecs())),
        Err(e) => format!("[1,{}]", err_code(&e)),
    }
}
fn rs_od(r: Result<OracleDate, Error>) -> String {
    match r {
        Ok(t) => format!("[0,{}]", t3(t.usecs())),
        Err(e) => format!("[1,{}]", err_code(&e)),
    }
}

macro_rules! tr12 {
    ($v:expr, $enc:ident) => {
        [
            cu(|| $enc($v.trunc_century())),
            cu(|| $enc($v.trunc_year())),
            cu(|| $enc($v.trunc_iso_year())),
            cu(|| $enc($v.trunc_quarter())),
            cu(|| $enc($v.trunc_month())),
            cu(|| $enc($v.trunc_week())),
            cu(|| $enc($v.trunc_iso_week())),
            cu(|| $enc($v.trunc_month_start_week())),
            cu(|| $enc($v.trunc_day())),
            cu(|| $enc($v.trunc_sunday_start_week())),
            cu(|| $enc($v.trunc_hour())),
            cu(|| $enc($v.trunc_minute())),
        ]
        .join(",")
    };
}
macro_rules! rd12 {
    ($v:expr, $enc:ident) => {
        [
            cu(|| $enc($v.round_century())),
            cu(|| $enc($v.round_year())),
            cu(|| $enc($v.round_iso_year())),
            cu(|| $enc($v.round_quarter())),
            cu(|| $enc($v.round_month())),
            cu(|| $enc($v.round_week())),
            cu(|| $enc($v.round_iso_week())),
            cu(|| $enc($v.round_month_start_week())),
            cu(|| $enc($v.round_day())),
            cu(|| $enc($v.round_sunday_start_week())),
            cu(|| $enc($v.round_hour())),
            cu(|| $enc($v.round_minute())),
        ]
        .join(",")
    };
}

/// critical times of day (second, microsecond): midnight, +-1 us, around noon,
/// around minute 30 and second 30, last microsecond
pub const CRIT: [(i64, i64); 13] = [
    (0, 0),
    (0, 1),
    (43199, 999_999),
    (43200, 0),
    (86399, 999_999),
    (1799, 999_999),  // 00:29:59.999999
    (1800, 0),        // 00:30:00
    (84599, 999_999), // 23:29:59.999999
    (84600, 0),       // 23:30:00
    (86369, 999_999), // 23:59:29.999999
    (86370, 0),       // 23:59:30
    (45029, 999_999), // 12:30:29.999999
    (45030, 0),       // 12:30:30
];

fn read_ranges(spec: &str) -> Vec<(i32, i32)> {
    // "a:b,c:d" or "@file" with one "a b" pair per line
    let text = if let Some(p) = spec.strip_prefix('@') {
        std::fs::read_to_string(p).expect("harness: ranges file")
    } else {
        spec.replace(',', "\n").replace(':', " ")
    };
    text.lines()
        .filter(|l| !l.trim().is_empty())
        .map(|l| {
            let mut it = l.split_whitespace();
            let a: i32 = it.next().unwrap().parse().unwrap();
            let b: i32 = it.next().unwrap().parse().unwrap();
            (a, b)
        })
        .collect()
}

/// vh daysweep --out FILE --ranges SPEC --groups cal,dtr,ttr,otr,tsx,odx [--seed N] [--ntimes K]
pub fn daysweep(a: &[String]) {
    let out = flag(a, "--out").expect("--out");
    let ranges = read_ranges(flag(a, "--ranges").expect("--ranges"));
    let groups: Vec<&str> = flag(a, "--groups").unwrap_or("cal").split(',').collect();
    let seed: u64 = flag(a, "--seed").map(|s| s.parse().unwrap()).unwrap_or(1);
    let ntimes: usize = flag(a, "--ntimes").map(|s| s.parse().unwrap()).unwrap_or(4);
    let fixed: Vec<usize> = flag(a, "--fixed")
        .map(|s| s.split(',').filter(|x| !x.is_empty()).map(|x| x.parse().unwrap()).collect())
        .unwrap_or_default();
    let nrand: usize = flag(a, "--nrand").map(|s| s.parse().unwrap()).unwrap_or(1);
    let has = |g: &str| groups.contains(&g);
    let mut w = BufWriter::with_capacity(1 << 20, std::fs::File::create(out).expect("harness: create out"));
    let mut rng = Rng(seed ^ 0xD5);
    let dmin = Date::MIN.days();
    let mut count = 0u64;
    for (lo, hi) in ranges {
        for n in lo..=hi {
            let date = match Date::try_from_days(n) {
                Ok(d) => d,
                Err(_) => panic!("harness: day {} out of range in sweep", n),
            };
            let mut s = String::with_capacity(4096);
            write!(s, "{{\"n\":{}", n).unwrap();
            if has("cal") {
                let (y, m, d) = date.extract();
                let prev = Date::try_from_days(if n > dmin { n - 1 } else { n }).unwrap();
                let back = Date::try_from_ymd(y, m, d);
                let (eq, heq) = match &back {
                    Ok(b) => (*b == date, crate::ops::hash_eq(b, &date)),
                    Err(_) => (false, false),
                };
                write!(
                    s,
                    ",\"ymd\":[{},{},{}],\"rt\":{},\"fd\":{},\"valid\":{},\"dow\":{},\"acc\":[{},{},{}],\"ordp\":{},\"eq\":{},\"heq\":{},\"ldm\":{}",
                    y, m, d,
                    rs_date(back),
                    rs_date(Date::try_from_days(n)),
                    Date::is_valid(y, m, d) as i32,
                    cu(|| format!("{}", date.day_of_week() as i32)),
                    date.year().unwrap(), date.month().unwrap(), date.day().unwrap(),
                    date.cmp(&prev) as i32,
                    eq as i32, heq as i32,
                    cu(|| format!("{}", date.last_day_of_month().days())),
                )
                .unwrap();
            }
            if has("dtr") {
                write!(s, ",\"tr\":[{}],\"rd\":[{}]", tr12!(date, rs_date), rd12!(date, rs_date)).unwrap();
            }
            if has("ttr") || has("otr") || has("tsx") || has("odx") {
                // times of this day: a rotating selection of the critical times + random ones
                let mut times: Vec<(i64, i64)> = fixed.iter().map(|&i| CRIT[i]).collect();
                for j in 0..ntimes {
                    let idx = ((n as i64).rem_euclid(13) as usize * ntimes + j) % CRIT.len();
                    if !times.contains(&CRIT[idx]) {
                        times.push(CRIT[idx]);
                    }
                }
                for _ in 0..nrand {
                    times.push((rng.range(0, 86399), rng.range(0, 999_999)));
                }
                s.push_str(",\"tm\":[");
                for (k, (sec, us)) in times.iter().enumerate() {
                    if k > 0 {
                        s.push(',');
                    }
                    let time = Time::try_from_usecs(sec * 1_000_000 + us).unwrap();
                    let ts = Timestamp::new(date, time);
                    write!(s, "{{\"t\":[{},{}]", sec, us).unwrap();
                    if has("ttr") {
                        write!(s, ",\"tr\":[{}],\"rd\":[{}]", tr12!(ts, rs_ts), rd12!(ts, rs_ts)).unwrap();
                    }
                    if has("otr") {
                        let od = OracleDate::from(ts);
                        write!(s, ",\"otr\":[{}],\"ord\":[{}]", tr12!(od, rs_od), rd12!(od, rs_od)).unwrap();
                    }
                    if has("tsx") {
                        let (xd, xt) = ts.extract();
                        let prev = Timestamp::try_from_usecs(ts.usecs() - 1).unwrap_or(ts);
                        write!(
                            s,
                            ",\"us\":{},\"ext\":[{},{},{}],\"acc\":[{},{},{},{},{},{}],\"dt\":{},\"tt\":[{},{}],\"cmpp\":{},\"cmpd\":[{},{}]",
                            t3(ts.usecs()),
                            xd.days(), xt.usecs() / 1_000_000, xt.usecs() % 1_000_000,
                            ts.year().unwrap(), ts.month().unwrap(), ts.day().unwrap(),
                            ts.hour().unwrap(), ts.minute().unwrap(),
                            (ts.second().unwrap() * 1e6).round() as i64,
                            DateTime::date(&ts).unwrap().days(),
                            Time::from(ts).usecs() / 1_000_000, Time::from(ts).usecs() % 1_000_000,
                            ts.cmp(&prev) as i32,
                            ts.partial_cmp(&date).map(|o| o as i32).unwrap_or(9),
                            date.partial_cmp(&ts).map(|o| o as i32).unwrap_or(9),
                        )
                        .unwrap();
                    }
                    if has("odx") {
                        let of = OracleDate::from(ts);
                        let on = OracleDate::new(date, time);
                        write!(
                            s,
                            ",\"of\":{},\"on\":{},\"ou\":{},\"oext\":{}",
                            t3(of.usecs()),
                            t3(on.usecs()),
                            rs_od(OracleDate::try_from_usecs(ts.usecs())),
                            { let (d2, t2) = of.extract(); format!("[{},{},{}]", d2.days(), t2.usecs() / 1_000_000, t2.usecs() % 1_000_000) },
                        )
                        .unwrap();
                    }
                    s.push('}');
                }
                s.push(']');
            }
            s.push_str("}\n");
            w.write_all(s.as_bytes()).unwrap();
            count += 1;
        }
    }
    w.flush().unwrap();
    println!("{{\"records\":{}}}", count);
}

/// vh events --out FILE --plan PLANFILE : executes a plan of {"op","a"} lines
/// (one per line; produced by the orchestrator or by a TLC generator) and logs
/// the events.  `--exact FILE` additionally writes the unsaturated arguments
/// for replay files.
pub fn events(a: &[String]) {
    let out = flag(a, "--out").expect("--out");
    let plan = flag(a, "--plan").expect("--plan");
    let text = std::fs::read_to_string(plan).expect("harness: plan file");
    let mut w = BufWriter::with_capacity(1 << 20, std::fs::File::create(out).expect("harness: create out"));
    let mut count = 0u64;
    let mut panics = 0u64;
    for line in text.lines() {
        if line.trim().is_empty() {
            continue;
        }
        let v: Value = serde_json::from_str(line).expect("harness: bad plan line");
        let op = v["op"].as_str().unwrap();
        let args = v["a"].as_array().cloned().unwrap_or_default();
        let r = exec(op, &args);
        if r[0] == json!(2) {
            panics += 1;
        }
        count += 1;
        writeln!(w, "{}", json!({"i": count, "op": op, "a": saturate(&Value::Array(args)), "r": r})).unwrap();
    }
    w.flush().unwrap();
    println!("{{\"events\":{},\"panics\":{}}}", count, panics);
}
