//! Projection between the crate's concrete values and the specification's
//! abstract values (DESIGN.md section 3).  This file is the Rust-side trusted
//! base: no calendar, rounding or parsing logic lives here - only the change
//! of representation
//!     i64 microseconds  <->  (day, second-of-day, microsecond)   (floor form)
//!     f64               <->  class + exact rational  sg * (k + p/q)
//!     text              <->  array of one-character strings
use serde_json::{json, Value};
use sqldatetime::*;

pub const US_PER_DAY: i128 = 86_400_000_000;
pub const US_PER_SEC: i128 = 1_000_000;

/// floor projection of a microsecond count
pub fn split_us(us: i128) -> (i64, i64, i64) {
    let d = us.div_euclid(US_PER_DAY);
    let r = us.rem_euclid(US_PER_DAY);
    (d as i64, (r / US_PER_SEC) as i64, (r % US_PER_SEC) as i64)
}
pub fn join_us(d: i64, s: i64, u: i64) -> i128 {
    d as i128 * US_PER_DAY + s as i128 * US_PER_SEC + u as i128
}
pub fn v3(us: i128) -> Value {
    let (d, s, u) = split_us(us);
    json!([d, s, u])
}
pub fn sat_u32(x: u32) -> i64 {
    if x > i32::MAX as u32 {
        i32::MAX as i64
    } else {
        x as i64
    }
}

// ---- decoding of arguments -------------------------------------------------
pub fn ai(v: &Value) -> i64 {
    v.as_i64().unwrap_or_else(|| panic!("harness: int expected, got {}", v))
}
pub fn a_i32(v: &Value) -> i32 {
    let x = ai(v);
    if x > i32::MAX as i64 {
        i32::MAX
    } else if x < i32::MIN as i64 {
        i32::MIN
    } else {
        x as i32
    }
}
pub fn a_u32(v: &Value) -> u32 {
    // harness-internal arguments carry the real u32; the *logged* event is
    // saturated at 2^31-1 by `saturate` because TLC integers are 32-bit
    let x = ai(v);
    if x < 0 || x > u32::MAX as i64 {
        panic!("harness: u32 expected, got {}", v)
    }
    x as u32
}
/// clamp every integer of a JSON value into the 32-bit range TLC can read
pub fn saturate(v: &Value) -> Value {
    match v {
        Value::Number(n) => {
            let x = n.as_i64().unwrap_or(if n.as_u64().is_some() { i64::MAX } else { 0 });
            json!(x.clamp(i32::MIN as i64, i32::MAX as i64))
        }
        Value::Array(a) => Value::Array(a.iter().map(saturate).collect()),
        other => other.clone(),
    }
}
pub fn a3(v: &Value) -> i128 {
    let a = v.as_array().unwrap_or_else(|| panic!("harness: triple expected, got {}", v));
    join_us(ai(&a[0]), ai(&a[1]), ai(&a[2]))
}
pub fn a_i64(v: &Value) -> i64 {
    let x = a3(v);
    if x > i64::MAX as i128 {
        i64::MAX
    } else if x < i64::MIN as i128 {
        i64::MIN
    } else {
        x as i64
    }
}
pub fn a_date(v: &Value) -> Date {
    Date::try_from_days(a_i32(v)).unwrap_or_else(|_| panic!("harness: bad Date arg {}", v))
}
pub fn a_time(v: &Value) -> Time {
    let a = v.as_array().unwrap();
    Time::try_from_usecs(ai(&a[0]) * 1_000_000 + ai(&a[1]))
        .unwrap_or_else(|_| panic!("harness: bad Time arg {}", v))
}
pub fn a_ts(v: &Value) -> Timestamp {
    Timestamp::try_from_usecs(a_i64(v)).unwrap_or_else(|_| panic!("harness: bad Timestamp arg {}", v))
}
pub fn a_od(v: &Value) -> OracleDate {
    OracleDate::try_from_usecs(a_i64(v)).unwrap_or_else(|_| panic!("harness: bad OracleDate arg {}", v))
}
pub fn a_ym(v: &Value) -> IntervalYM {
    IntervalYM::try_from_months(a_i32(v)).unwrap_or_else(|_| panic!("harness: bad IntervalYM arg {}", v))
}
pub fn a_dt(v: &Value) -> IntervalDT {
    IntervalDT::try_from_usecs(a_i64(v)).unwrap_or_else(|_| panic!("harness: bad IntervalDT arg {}", v))
}
/// text: array of one-character strings (placeholders # @ $ stand for
/// multi-byte characters, see DESIGN 3.3) or a plain JSON string
pub fn a_txt(v: &Value) -> String {
    match v {
        Value::String(s) => s.clone(),
        Value::Array(a) => {
            let mut s = String::new();
            for c in a {
                let c = c.as_str().unwrap_or_else(|| panic!("harness: char expected in {}", v));
                match c {
                    "#" => s.push('\u{e9}'),
                    "@" => s.push('\u{65e5}'),
                    "$" => s.push('\u{1f600}'),
                    _ => s.push_str(c),
                }
            }
            s
        }
        _ => panic!("harness: text expected, got {}", v),
    }
}
/// f64 argument, exactly decoded: [cls, sg, mhi, mlo, e]
///   cls 0: finite, value sg * (mhi * 2^27 + mlo) * 2^e   (mantissa < 2^53)
///   cls 2: NaN   3: +inf   4: -inf
pub fn a_f64(v: &Value) -> f64 {
    let a = v.as_array().unwrap_or_else(|| panic!("harness: f64 spec expected, got {}", v));
    let (cls, sg, mhi, mlo, e) = (ai(&a[0]), ai(&a[1]), ai(&a[2]), ai(&a[3]), ai(&a[4]));
    match cls {
        0 => {
            let mant = ((mhi as u64) << 27) | mlo as u64;
            let mut x = mant as f64;
            // scale by 2^e in steps that stay exact
            let mut k = e;
            while k > 0 {
                let st = k.min(500);
                x *= 2f64.powi(st as i32);
                k -= st;
            }
            while k < 0 {
                let st = (-k).min(500);
                x /= 2f64.powi(st as i32);
                k += st;
            }
            let x = if sg < 0 { -x } else { x };
            if f64_spec(x) != *v && mant != 0 {
                // the fields were not a canonical decoding; accept if the value round-trips numerically
                let back = f64_spec(x);
                let b = back.as_array().unwrap();
                let m2 = ((ai(&b[2]) as u64) << 27) | ai(&b[3]) as u64;
                let e2 = ai(&b[4]);
                // mant * 2^e == m2 * 2^e2 ?
                let (ma, ea, mb, eb) = (mant as u128, e, m2 as u128, e2);
                let okk = if ea >= eb { ea - eb < 64 && (ma << (ea - eb)) == mb } else { eb - ea < 64 && (mb << (eb - ea)) == ma };
                if !okk {
                    panic!("harness: f64 spec {} is not exactly representable", v);
                }
            }
            x
        }
        2 => f64::NAN,
        3 => f64::INFINITY,
        4 => f64::NEG_INFINITY,
        _ => panic!("harness: bad f64 class {}", v),
    }
}
/// exact decoding of a double into the spec's form
pub fn f64_spec(x: f64) -> Value {
    if x.is_nan() {
        return json!([2, 1, 0, 0, 0]);
    }
    if x.is_infinite() {
        return json!([if x > 0.0 { 3 } else { 4 }, if x > 0.0 { 1 } else { -1 }, 0, 0, 0]);
    }
    let bits = x.to_bits();
    let sg = if bits >> 63 == 1 { -1 } else { 1 };
    let ex = ((bits >> 52) & 0x7ff) as i64;
    let frac = bits & ((1u64 << 52) - 1);
    let (mant, e) = if ex == 0 { (frac, -1074) } else { (frac | (1u64 << 52), ex - 1075) };
    if mant == 0 {
        return json!([0, sg, 0, 0, 0]);
    }
    json!([0, sg, mant >> 27, mant & ((1u64 << 27) - 1), e])
}

// ---- encoding of results ---------------------------------------------------
pub fn r_date(d: Date) -> Value {
    json!(d.days())
}
pub fn r_time(t: Time) -> Value {
    json!([t.usecs() / 1_000_000, t.usecs() % 1_000_000])
}
pub fn r_ts(t: Timestamp) -> Value {
    v3(t.usecs() as i128)
}
pub fn r_od(t: OracleDate) -> Value {
    v3(t.usecs() as i128)
}
pub fn r_ym(i: IntervalYM) -> Value {
    json!(i.months())
}
pub fn r_dt(i: IntervalDT) -> Value {
    v3(i.usecs() as i128)
}
pub fn r_txt(s: &str) -> Value {
    Value::Array(
        s.chars()
            .map(|c| {
                Value::String(match c {
                    '\u{e9}' => "#".to_string(),
                    '\u{65e5}' => "@".to_string(),
                    '\u{1f600}' => "$".to_string(),
                    c => c.to_string(),
                })
            })
            .collect(),
    )
}
pub fn r_bool(b: bool) -> Value {
    json!(if b { 1 } else { 0 })
}
pub fn r_ord(o: std::cmp::Ordering) -> Value {
    json!(o as i32)
}
pub fn r_pord(o: Option<std::cmp::Ordering>) -> Value {
    match o {
        Some(o) => json!([0, o as i32]),
        None => json!([3, 0]),
    }
}
pub fn err_code(e: &Error) -> i64 {
    match e {
        Error::DateOutOfRange => 1,
        Error::TimeOutOfRange => 2,
        Error::IntervalOutOfRange => 3,
        Error::InvalidNumber => 4,
        Error::InvalidMonth => 5,
        Error::InvalidDay => 6,
        Error::InvalidMinute => 7,
        Error::InvalidSecond => 8,
        Error::InvalidFraction => 9,
        Error::InvalidDate => 10,
        Error::NumericOverflow => 11,
        Error::DivideByZero => 12,
        Error::InvalidFormat(_) => 13,
        Error::FormatError(_) => 14,
        Error::ParseError(_) => 15,
        Error::TryReserveError(_) => 16,
    }
}
pub fn ok(v: Value) -> Value {
    json!([0, v])
}
pub fn res<T>(r: Result<T, Error>, f: impl Fn(T) -> Value) -> Value {
    match r {
        Ok(v) => json!([0, f(v)]),
        Err(e) => json!([1, err_code(&e)]),
    }
}
pub fn opt<T>(r: Option<T>, f: impl Fn(T) -> Value) -> Value {
    match r {
        Some(v) => json!([0, f(v)]),
        None => json!([3, 0]),
    }
}
/// `DateTime::second()` in microseconds (the f64 is a multiple of 1e-6 up to rounding)
pub fn r_sec(x: f64) -> Value {
    json!((x * 1e6).round() as i64)
}

#[cfg(test)]
mod tests {
    use super::*;
    #[test]
    fn split_join() {
        for us in [0i128, 1, -1, 86_399_999_999, 86_400_000_000, -86_400_000_000, -86_400_000_001,
                   i64::MAX as i128, i64::MIN as i128, 253402300799999999, -62135596800000000] {
            let (d, s, u) = split_us(us);
            assert!((0..86400).contains(&s) && (0..1_000_000).contains(&u));
            assert_eq!(join_us(d, s, u), us);
        }
        assert_eq!(split_us(-1), (-1, 86399, 999999));
        assert_eq!(split_us(-62135596800000000), (-719162, 0, 0));
    }
    #[test]
    fn f64_spec_roundtrip() {
        for x in [2.5f64, -0.375, 0.1, -12.345, 1e300, -1e-300, 5e-324, f64::MAX, f64::MIN_POSITIVE, 0.0, -0.0, 86400e6, 1.0 / 3.0] {
            let y = a_f64(&f64_spec(x));
            assert_eq!(x.to_bits(), y.to_bits(), "{}", x);
        }
        assert_eq!(a_f64(&json!([0, 1, 0, 5, -1])), 2.5);
        assert!(a_f64(&json!([2, 1, 0, 0, 0])).is_nan());
        assert!(a_f64(&json!([0, -1, 0, 0, 0])).is_sign_negative());
    }
}
