pub fn replay(_a: &[String]) {}
