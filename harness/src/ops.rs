//! One entry per safe public operation of the crate: decode abstract
//! arguments, call the real function (inside catch_unwind - a panic is data),
//! encode the result.  Names are `<Type>.<fn>`; types are abbreviated
//! D (Date) T (Time) TS (Timestamp) YM (IntervalYM) DT (IntervalDT) OD (OracleDate).
use crate::proj::*;
use serde_json::{json, Value};
use sqldatetime::*;
use std::collections::hash_map::DefaultHasher;
use std::convert::TryFrom;
use std::fmt::Write as _;
use std::hash::{Hash, Hasher};
use std::panic::{catch_unwind, AssertUnwindSafe};

fn h<T: Hash>(x: &T) -> u64 {
    let mut s = DefaultHasher::new();
    x.hash(&mut s);
    s.finish()
}

pub fn hash_eq<T: Hash>(a: &T, b: &T) -> bool {
    h(a) == h(b)
}

fn sign(s: Sign) -> i64 {
    match s {
        Sign::Positive => 1,
        Sign::Negative => -1,
    }
}

pub fn set_clock(a: &[Value]) -> Value {
    if a.is_empty() {
        sqldatetime::verif_hooks::set_clock(None);
        return ok(json!(0));
    }
    let okk = sqldatetime::verif_hooks::set_clock(Some((
        a_i32(&a[0]),
        a_u32(&a[1]),
        a_u32(&a[2]),
        a_u32(&a[3]),
        a_u32(&a[4]),
        a_u32(&a[5]),
        a_u32(&a[6]),
    )));
    if !okk {
        panic!("harness: clock {:?} not representable", a);
    }
    ok(json!(0))
}

macro_rules! format_via {
    ($ty:ty, $v:expr, $pic:expr) => {{
        // route 1: Formatter::try_new + Formatter::format into a String sink
        let r1: Result<String, Error> = (|| {
            let f = Formatter::try_new($pic)?;
            let mut s = String::new();
            f.format($v, &mut s)?;
            Ok(s)
        })();
        // route 2: T::format -> impl Display, written into a text sink with write!
        let r2: Result<String, Error> = (|| {
            let d = <$ty>::format($v, $pic)?;
            let mut s = String::new();
            match write!(s, "{}", d) {
                Ok(()) => Ok(s),
                Err(_) => Err(Error::FormatError(String::new())),
            }
        })();
        match (&r1, &r2) {
            (Ok(a), Ok(b)) if a == b => {}
            (Err(_), Err(_)) => {}
            _ => panic!("harness-observed: Formatter::format and Display disagree: {:?} vs {:?}", r1, r2),
        }
        res(r1, |s| r_txt(&s))
    }};
}

macro_rules! parse_via {
    ($ty:ty, $txt:expr, $pic:expr, $enc:expr) => {{
        let r1: Result<$ty, Error> = <$ty>::parse($txt, $pic);
        let r2: Result<$ty, Error> = Formatter::try_new($pic).and_then(|f| f.parse::<_, $ty>($txt));
        match (&r1, &r2) {
            (Ok(a), Ok(b)) if a == b => {}
            (Err(_), Err(_)) => {}
            _ => panic!("harness-observed: T::parse and Formatter::parse disagree: {:?} vs {:?}", r1, r2),
        }
        res(r1, $enc)
    }};
}

/// One `Formatter` object used for two parses of the same text under two different clocks
/// (a = [clock A, clock B, text, picture]): a formatter must not remember anything between calls.
macro_rules! parse_reuse {
    ($ty:ty, $a:expr, $enc:expr) => {{
        let (t, p) = (a_txt(&$a[2]), a_txt(&$a[3]));
        let ca = $a[0].as_array().unwrap_or_else(|| panic!("harness: clock expected"));
        let cb = $a[1].as_array().unwrap_or_else(|| panic!("harness: clock expected"));
        match Formatter::try_new(&p) {
            Err(e) => ok(json!([res(Err::<$ty, Error>(e.clone()), $enc), res(Err::<$ty, Error>(e), $enc)])),
            Ok(f) => {
                set_clock(ca);
                let _g = ClockGuard;
                let r1: Result<$ty, Error> = f.parse::<_, $ty>(&t);
                set_clock(cb);
                let r2: Result<$ty, Error> = f.parse::<_, $ty>(&t);
                ok(json!([res(r1, $enc), res(r2, $enc)]))
            }
        }
    }};
}

macro_rules! trunc_round {
    ($name:expr, $v:expr, $enc:expr) => {
        match $name {
            "trunc_century" => Some(res($v.trunc_century(), $enc)),
            "trunc_year" => Some(res($v.trunc_year(), $enc)),
            "trunc_iso_year" => Some(res($v.trunc_iso_year(), $enc)),
            "trunc_quarter" => Some(res($v.trunc_quarter(), $enc)),
            "trunc_month" => Some(res($v.trunc_month(), $enc)),
            "trunc_week" => Some(res($v.trunc_week(), $enc)),
            "trunc_iso_week" => Some(res($v.trunc_iso_week(), $enc)),
            "trunc_month_start_week" => Some(res($v.trunc_month_start_week(), $enc)),
            "trunc_day" => Some(res($v.trunc_day(), $enc)),
            "trunc_sunday_start_week" => Some(res($v.trunc_sunday_start_week(), $enc)),
            "trunc_hour" => Some(res($v.trunc_hour(), $enc)),
            "trunc_minute" => Some(res($v.trunc_minute(), $enc)),
            "round_century" => Some(res($v.round_century(), $enc)),
            "round_year" => Some(res($v.round_year(), $enc)),
            "round_iso_year" => Some(res($v.round_iso_year(), $enc)),
            "round_quarter" => Some(res($v.round_quarter(), $enc)),
            "round_month" => Some(res($v.round_month(), $enc)),
            "round_week" => Some(res($v.round_week(), $enc)),
            "round_iso_week" => Some(res($v.round_iso_week(), $enc)),
            "round_month_start_week" => Some(res($v.round_month_start_week(), $enc)),
            "round_day" => Some(res($v.round_day(), $enc)),
            "round_sunday_start_week" => Some(res($v.round_sunday_start_week(), $enc)),
            "round_hour" => Some(res($v.round_hour(), $enc)),
            "round_minute" => Some(res($v.round_minute(), $enc)),
            _ => None,
        }
    };
}

macro_rules! accessors {
    ($name:expr, $v:expr) => {
        match $name {
            "year" => Some(opt($v.year(), |x| json!(x))),
            "month" => Some(opt($v.month(), |x| json!(x))),
            "day" => Some(opt($v.day(), |x| json!(x))),
            "hour" => Some(opt($v.hour(), |x| json!(x))),
            "minute" => Some(opt($v.minute(), |x| json!(x))),
            "second" => Some(opt($v.second(), r_sec)),
            "date" => Some(opt(DateTime::date(&$v), r_date)),
            _ => None,
        }
    };
}


/// The comparison operators as the user writes them: [<, <=, >, >=, !=].
#[allow(clippy::nonminimal_bool)]
fn ops5<A, B>(a: &A, b: &B) -> Value
where
    A: PartialOrd<B>,
{
    json!([(a < b) as i32, (a <= b) as i32, (a > b) as i32, (a >= b) as i32, (a != b) as i32])
}

fn cmp3<A, B>(a: &A, b: &B) -> Value
where
    A: PartialOrd<B>,
{
    r_pord(a.partial_cmp(b))
}

/// Executes one operation.  Never panics for a panic of the code under test:
/// that is returned as `[2, 0]`.
pub fn exec(op: &str, a: &[Value]) -> Value {
    let r = catch_unwind(AssertUnwindSafe(|| exec_inner(op, a)));
    match r {
        Ok(v) => v,
        Err(p) => {
            let msg = p
                .downcast_ref::<String>()
                .cloned()
                .or_else(|| p.downcast_ref::<&str>().map(|s| s.to_string()))
                .unwrap_or_default();
            if msg.starts_with("harness:") {
                eprintln!("HARNESS ERROR in {} {:?}: {}", op, a, msg);
                std::process::exit(2);
            }
            json!([2, 0])
        }
    }
}

fn payload(v: Value) -> Value {
    // payload of an Ok-wrapped result [0, p]
    match v {
        Value::Array(mut a) if a.len() == 2 && a[0] == json!(0) => a.pop().unwrap(),
        other => panic!("harness: unexpected composite part {}", other),
    }
}

struct ClockGuard;
impl Drop for ClockGuard {
    fn drop(&mut self) {
        sqldatetime::verif_hooks::set_clock(None);
    }
}

fn exec_inner(op: &str, a: &[Value]) -> Value {
    if op == "VEC" {
        // [base op, first argument, [second arguments...]] -> [results...]
        let base = a[0].as_str().unwrap_or_else(|| panic!("harness: VEC base op"));
        let seconds = a[2].as_array().unwrap_or_else(|| panic!("harness: VEC list"));
        let parts: Vec<Value> = seconds
            .iter()
            .map(|x| match catch_unwind(AssertUnwindSafe(|| exec_inner(base, &[a[1].clone(), x.clone()]))) {
                Ok(v) => v,
                Err(p) => {
                    let msg = p.downcast_ref::<String>().cloned().unwrap_or_default();
                    if msg.starts_with("harness:") {
                        std::panic::resume_unwind(p);
                    }
                    json!([2, 0])
                }
            })
            .collect();
        return ok(Value::Array(parts));
    }
    let (ty, name) = op.split_once('.').unwrap_or_else(|| panic!("harness: bad op {}", op));
    if ty == "AG" {
        return exec_agree(name, a);
    }
    // composite / indexed forms used by the trace specifications
    match name {
        "trunc" | "round" => {
            let i = ai(&a[1]) as usize;
            return exec_inner(&format!("{}.{}_{}", ty, name, UNITS[i - 1]), &a[..1]);
        }
        "acc" => {
            let parts: Vec<Value> = ["year", "month", "day", "hour", "minute", "second", "date"]
                .iter()
                .map(|n| exec_inner(&format!("{}.{}", ty, n), &a[..1]))
                .collect();
            return ok(Value::Array(parts));
        }
        "ord" => {
            let parts: Vec<Value> = ["cmp", "eq", "hash_eq", "ops"]
                .iter()
                .map(|n| payload(exec_inner(&format!("{}.{}", ty, n), a)))
                .collect();
            return ok(Value::Array(parts));
        }
        "ord_ts" | "ord_od" | "ord_d" | "ord_dt" | "ord_t" => {
            let other = &name[4..];
            let c = payload(exec_inner(&format!("{}.cmp_{}", ty, other), a));
            let e = payload(exec_inner(&format!("{}.eq_{}", ty, other), a));
            let o = payload(exec_inner(&format!("{}.ops_{}", ty, other), a));
            return ok(json!([c, e, o]));
        }
        "roundtrip" => {
            // format -> parse -> format with the same picture; later parts only if the earlier succeeded
            let t1 = exec_inner(&format!("{}.format", ty), a);
            let mut parts = vec![t1.clone()];
            if t1[0] == json!(0) {
                let text = t1[1].clone();
                let p = exec_inner(&format!("{}.parse", ty), &[text, a[1].clone()]);
                parts.push(p.clone());
                if p[0] == json!(0) {
                    parts.push(exec_inner(&format!("{}.format", ty), &[p[1].clone(), a[1].clone()]));
                } else {
                    parts.push(json!([1, 0]));
                }
            } else {
                parts.push(json!([1, 0]));
                parts.push(json!([1, 0]));
            }
            return ok(Value::Array(parts));
        }
        "now_at" | "from_time_at" | "parse_at" => {
            let clock = a[0].as_array().unwrap_or_else(|| panic!("harness: clock expected"));
            set_clock(clock);
            let _g = ClockGuard;
            let inner = match name {
                "now_at" => "now",
                "from_time_at" => "try_from_time",
                _ => "parse",
            };
            return exec_inner(&format!("{}.{}", ty, inner), &a[1..]);
        }
        _ => {}
    }
    if ty == "AG" {
        return exec_agree(name, a);
    }
    match ty {
        "clock" => set_clock(a),
        "F" => match name {
            "try_new" => res(Formatter::try_new(a_txt(&a[0])), |_| json!(0)),
            // [picture, [[type, value] ...]]: ONE Formatter object formats the values in turn; one result per step
            "session" => {
                let pic = a_txt(&a[0]);
                let steps = a[1].as_array().unwrap_or_else(|| panic!("harness: session steps"));
                match Formatter::try_new(&pic) {
                    Err(_) => ok(Value::Array(steps.iter().map(|_| json!([1, 0])).collect())),
                    Ok(f) => {
                        let mut out = Vec::new();
                        for st in steps {
                            let ty = st[0].as_str().unwrap_or_else(|| panic!("harness: session type"));
                            let mut sink = String::new();
                            let r = match ty {
                                "D" => f.format(a_date(&st[1]), &mut sink),
                                "T" => f.format(a_time(&st[1]), &mut sink),
                                "TS" => f.format(a_ts(&st[1]), &mut sink),
                                "YM" => f.format(a_ym(&st[1]), &mut sink),
                                "DT" => f.format(a_dt(&st[1]), &mut sink),
                                "OD" => f.format(a_od(&st[1]), &mut sink),
                                _ => panic!("harness: session type {}", ty),
                            };
                            out.push(res(r.map(|_| sink), |t| r_txt(&t)));
                        }
                        ok(Value::Array(out))
                    }
                }
            }
            _ => panic!("harness: unknown op {}", op),
        },
        "D" => exec_date(name, a).unwrap_or_else(|| panic!("harness: unknown op {}", op)),
        "T" => exec_time(name, a).unwrap_or_else(|| panic!("harness: unknown op {}", op)),
        "TS" => exec_ts(name, a).unwrap_or_else(|| panic!("harness: unknown op {}", op)),
        "YM" => exec_ym(name, a).unwrap_or_else(|| panic!("harness: unknown op {}", op)),
        "DT" => exec_dt(name, a).unwrap_or_else(|| panic!("harness: unknown op {}", op)),
        "OD" => exec_od(name, a).unwrap_or_else(|| panic!("harness: unknown op {}", op)),
        _ => panic!("harness: unknown op {}", op),
    }
}

/// C17 composites: the same operation through Date / Timestamp / OracleDate,
/// results side by side (each part is a full [tag, payload] result)
fn exec_agree(name: &str, a: &[Value]) -> Value {
    let mid = |n: &Value| json!([n.clone(), 0, 0]);
    let parts: Vec<Value> = match name {
        // (date n, interval, 0 add / 1 sub)
        "dt" | "ym" => {
            let opn = format!("{}_interval_{}", if ai(&a[2]) == 0 { "add" } else { "sub" }, name);
            vec![
                exec_inner(&format!("D.{}", opn), &[a[0].clone(), a[1].clone()]),
                exec_inner(&format!("TS.{}", opn), &[mid(&a[0]), a[1].clone()]),
                exec_inner(&format!("OD.{}", opn), &[mid(&a[0]), a[1].clone()]),
            ]
        }
        // (oracle date, interval, 0 add / 1 sub)
        "dt2" | "ym2" => {
            let opn = format!("{}_interval_{}", if ai(&a[2]) == 0 { "add" } else { "sub" }, &name[..2]);
            vec![
                exec_inner(&format!("TS.{}", opn), &[a[0].clone(), a[1].clone()]),
                exec_inner(&format!("OD.{}", opn), &[a[0].clone(), a[1].clone()]),
            ]
        }
        "ldm" => vec![
            exec_inner("D.last_day_of_month", &a[..1]),
            exec_inner("TS.last_day_of_month", &[mid(&a[0])]),
            exec_inner("OD.last_day_of_month", &[mid(&a[0])]),
        ],
        "ldm2" => vec![exec_inner("TS.last_day_of_month", &a[..1]), exec_inner("OD.last_day_of_month", &a[..1])],
        "diff" => vec![
            exec_inner("D.sub_timestamp", a),
            exec_inner("TS.sub_timestamp", &[mid(&a[0]), a[1].clone()]),
            exec_inner("TS.sub_date", &[a[1].clone(), a[0].clone()]),
        ],
        "diff2" => vec![
            exec_inner("OD.sub_timestamp", a),
            exec_inner("TS.sub_timestamp", a),
            exec_inner("TS.oracle_sub_date", &[a[1].clone(), a[0].clone()]),
        ],
        "cmp_d_ts" => vec![
            exec_inner("D.ord_ts", a),
            exec_inner("TS.ord_d", &[a[1].clone(), a[0].clone()]),
            exec_inner("TS.ord", &[mid(&a[0]), a[1].clone()]),
        ],
        "cmp_od_ts" => vec![
            exec_inner("OD.ord_ts", a),
            exec_inner("TS.ord_od", &[a[1].clone(), a[0].clone()]),
            exec_inner("TS.ord", a),
        ],
        "cmp_od_d" => vec![
            exec_inner("OD.ord_d", a),
            exec_inner("D.ord_od", &[a[1].clone(), a[0].clone()]),
            exec_inner("TS.ord", &[a[0].clone(), mid(&a[1])]),
        ],
        "trunc" | "round" => vec![
            exec_inner(&format!("TS.{}", name), a),
            exec_inner(&format!("OD.{}", name), a),
        ],
        _ => panic!("harness: unknown op AG.{}", name),
    };
    ok(Value::Array(parts))
}

fn bin_roundtrip<T, R>(v: &T, raw_of: impl Fn(&[u8]) -> R, enc_raw: impl Fn(R) -> Value, dec: impl Fn(&[u8]) -> Option<T>, enc: impl Fn(T) -> Value) -> Value
where
    T: serde_crate_ser::SerializeAny,
{
    let bytes = v.to_bincode();
    let raw = raw_of(&bytes);
    let back = dec(&bytes);
    json!([bytes.len(), enc_raw(raw), match back { Some(x) => json!([0, enc(x)]), None => json!([1, 0]) }])
}

/// tiny indirection so the generic helper above does not need to name serde
mod serde_crate_ser {
    pub trait SerializeAny {
        fn to_bincode(&self) -> Vec<u8>;
    }
    macro_rules! imp {
        ($($t:ty),*) => {$(impl SerializeAny for $t { fn to_bincode(&self) -> Vec<u8> { bincode::serialize(self).unwrap() } })*};
    }
    imp!(sqldatetime::Date, sqldatetime::Time, sqldatetime::Timestamp, sqldatetime::IntervalYM, sqldatetime::IntervalDT, sqldatetime::OracleDate);
}

fn i32_of(b: &[u8]) -> i64 {
    i32::from_le_bytes([b[0], b[1], b[2], b[3]]) as i64
}
fn i64_of(b: &[u8]) -> i64 {
    i64::from_le_bytes([b[0], b[1], b[2], b[3], b[4], b[5], b[6], b[7]])
}

macro_rules! json_ops {
    ($name:expr, $ty:ty, $a:expr, $dec:expr, $enc:expr) => {
        match $name {
            "json" => {
                let v: $ty = $dec(&$a[0]);
                Some(match serde_json::to_string(&v) {
                    Ok(s) => {
                        let inner: String = serde_json::from_str(&s).expect("json string");
                        // the text the serializer wrote, and what it deserializes to
                        let back = match serde_json::from_str::<$ty>(&s) {
                            Ok(v2) => ok($enc(v2)),
                            Err(_) => json!([1, 0]),
                        };
                        ok(json!([r_txt(&inner), back]))
                    }
                    Err(_) => json!([1, 0]),
                })
            }
            "unjson" => {
                let s = a_txt(&$a[0]);
                let q = serde_json::to_string(&s).unwrap();
                Some(match serde_json::from_str::<$ty>(&q) {
                    Ok(v) => ok($enc(v)),
                    Err(_) => json!([1, 0]),
                })
            }
            _ => None,
        }
    };
}

fn exec_date(name: &str, a: &[Value]) -> Option<Value> {
    Some(match name {
        "try_from_ymd" => res(Date::try_from_ymd(a_i32(&a[0]), a_u32(&a[1]), a_u32(&a[2])), r_date),
        "is_valid" => ok(r_bool(Date::is_valid(a_i32(&a[0]), a_u32(&a[1]), a_u32(&a[2])))),
        "try_from_days" => res(Date::try_from_days(a_i32(&a[0])), r_date),
        "days" => ok(json!(a_date(&a[0]).days())),
        "extract" => {
            let (y, m, d) = a_date(&a[0]).extract();
            ok(json!([y, m, d]))
        }
        "and_hms" => res(a_date(&a[0]).and_hms(a_u32(&a[1]), a_u32(&a[2]), a_u32(&a[3]), a_u32(&a[4])), r_ts),
        "and_time" => ok(r_ts(a_date(&a[0]).and_time(a_time(&a[1])))),
        "to_ts" => ok(r_ts(Timestamp::from(a_date(&a[0])))),
        "add_days" => res(a_date(&a[0]).add_days(a_i32(&a[1])), r_date),
        "sub_days" => res(a_date(&a[0]).sub_days(a_i32(&a[1])), r_date),
        "add_interval_ym" => res(a_date(&a[0]).add_interval_ym(a_ym(&a[1])), r_ts),
        "sub_interval_ym" => res(a_date(&a[0]).sub_interval_ym(a_ym(&a[1])), r_ts),
        "add_interval_dt" => res(a_date(&a[0]).add_interval_dt(a_dt(&a[1])), r_ts),
        "sub_interval_dt" => res(a_date(&a[0]).sub_interval_dt(a_dt(&a[1])), r_ts),
        "add_time" => ok(r_ts(a_date(&a[0]).add_time(a_time(&a[1])))),
        "sub_time" => res(a_date(&a[0]).sub_time(a_time(&a[1])), r_ts),
        "sub_date" => ok(json!(a_date(&a[0]).sub_date(a_date(&a[1])))),
        "sub_timestamp" => ok(r_dt(a_date(&a[0]).sub_timestamp(a_ts(&a[1])))),
        "day_of_week" => ok(json!(a_date(&a[0]).day_of_week() as i32)),
        "now" => res(Date::now(), r_date),
        "last_day_of_month" => ok(r_date(a_date(&a[0]).last_day_of_month())),
        "cmp" => ok(r_ord(a_date(&a[0]).cmp(&a_date(&a[1])))),
        "ops" => ok(ops5(&a_date(&a[0]), &a_date(&a[1]))),
        "eq" => ok(r_bool(a_date(&a[0]) == a_date(&a[1]))),
        "hash_eq" => ok(r_bool(h(&a_date(&a[0])) == h(&a_date(&a[1])))),
        "cmp_ts" => ok(cmp3(&a_date(&a[0]), &a_ts(&a[1]))),
        "ops_ts" => ok(ops5(&a_date(&a[0]), &a_ts(&a[1]))),
        "eq_ts" => ok(r_bool(a_date(&a[0]) == a_ts(&a[1]))),
        "cmp_od" => ok(cmp3(&a_date(&a[0]), &a_od(&a[1]))),
        "ops_od" => ok(ops5(&a_date(&a[0]), &a_od(&a[1]))),
        "eq_od" => ok(r_bool(a_date(&a[0]) == a_od(&a[1]))),
        "format" => {
            let pic = a_txt(&a[1]);
            format_via!(Date, a_date(&a[0]), &pic)
        }
        "parse" => {
            let (t, p) = (a_txt(&a[0]), a_txt(&a[1]));
            parse_via!(Date, &t, &p, r_date)
        }
        "parse_reuse_at" => parse_reuse!(Date, a, r_date),
        "bin" => {
            let v = a_date(&a[0]);
            ok(bin_roundtrip(&v, i32_of, |r| json!(r), |b| bincode::deserialize::<Date>(b).ok(), r_date))
        }
        "unbin" => {
            let raw = a_i32(&a[0]);
            match bincode::deserialize::<Date>(&raw.to_le_bytes()) {
                Ok(v) => ok(json!(v.days())),
                Err(_) => json!([1, 0]),
            }
        }
        _ => {
            if a.is_empty() {
                return None;
            }
            if let Some(r) = json_ops!(name, Date, a, a_date, r_date) {
                return Some(r);
            }
            let v = a_date(&a[0]);
            if let Some(r) = trunc_round!(name, v, r_date) {
                return Some(r);
            }
            if let Some(r) = accessors!(name, v) {
                return Some(r);
            }
            return None;
        }
    })
}

fn exec_time(name: &str, a: &[Value]) -> Option<Value> {
    Some(match name {
        "try_from_hms" => res(Time::try_from_hms(a_u32(&a[0]), a_u32(&a[1]), a_u32(&a[2]), a_u32(&a[3])), r_time),
        "is_valid" => ok(r_bool(Time::is_valid(a_u32(&a[0]), a_u32(&a[1]), a_u32(&a[2]), a_u32(&a[3])))),
        "try_from_usecs" => res(Time::try_from_usecs(a_i64(&a[0])), r_time),
        "usecs" => ok(v3(a_time(&a[0]).usecs() as i128)),
        "extract" => {
            let (hh, m, s, u) = a_time(&a[0]).extract();
            ok(json!([hh, m, s, u]))
        }
        "sub_time" => ok(r_dt(a_time(&a[0]).sub_time(a_time(&a[1])))),
        "add_interval_dt" => ok(r_time(a_time(&a[0]).add_interval_dt(a_dt(&a[1])))),
        "sub_interval_dt" => ok(r_time(a_time(&a[0]).sub_interval_dt(a_dt(&a[1])))),
        "mul_f64" => res(a_time(&a[0]).mul_f64(a_f64(&a[1])), r_dt),
        "div_f64" => res(a_time(&a[0]).div_f64(a_f64(&a[1])), r_dt),
        "from_ts" => ok(r_time(Time::from(a_ts(&a[0])))),
        "from_dt" => ok(r_time(Time::from(a_dt(&a[0])))),
        "from_od" => ok(r_time(Time::from(a_od(&a[0])))),
        "cmp" => ok(r_ord(a_time(&a[0]).cmp(&a_time(&a[1])))),
        "ops" => ok(ops5(&a_time(&a[0]), &a_time(&a[1]))),
        "eq" => ok(r_bool(a_time(&a[0]) == a_time(&a[1]))),
        "hash_eq" => ok(r_bool(h(&a_time(&a[0])) == h(&a_time(&a[1])))),
        "cmp_dt" => ok(cmp3(&a_time(&a[0]), &a_dt(&a[1]))),
        "ops_dt" => ok(ops5(&a_time(&a[0]), &a_dt(&a[1]))),
        "eq_dt" => ok(r_bool(a_time(&a[0]) == a_dt(&a[1]))),
        "format" => {
            let pic = a_txt(&a[1]);
            format_via!(Time, a_time(&a[0]), &pic)
        }
        "parse" => {
            let (t, p) = (a_txt(&a[0]), a_txt(&a[1]));
            parse_via!(Time, &t, &p, r_time)
        }
        "parse_reuse_at" => parse_reuse!(Time, a, r_time),
        "bin" => {
            let v = a_time(&a[0]);
            ok(bin_roundtrip(&v, i64_of, |r| v3(r as i128), |b| bincode::deserialize::<Time>(b).ok(), r_time))
        }
        "unbin" => {
            let raw = a_i64(&a[0]);
            match bincode::deserialize::<Time>(&raw.to_le_bytes()) {
                Ok(v) => ok(v3(v.usecs() as i128)),
                Err(_) => json!([1, 0]),
            }
        }
        _ => {
            if a.is_empty() {
                return None;
            }
            if let Some(r) = json_ops!(name, Time, a, a_time, r_time) {
                return Some(r);
            }
            let v = a_time(&a[0]);
            if let Some(r) = accessors!(name, v) {
                return Some(r);
            }
            return None;
        }
    })
}

fn exec_ts(name: &str, a: &[Value]) -> Option<Value> {
    Some(match name {
        "new" => ok(r_ts(Timestamp::new(a_date(&a[0]), a_time(&a[1])))),
        "extract" => {
            let (d, t) = a_ts(&a[0]).extract();
            ok(json!([d.days(), t.usecs() / 1_000_000, t.usecs() % 1_000_000]))
        }
        "usecs" => ok(v3(a_ts(&a[0]).usecs() as i128)),
        "try_from_usecs" => res(Timestamp::try_from_usecs(a_i64(&a[0])), r_ts),
        "add_interval_dt" => res(a_ts(&a[0]).add_interval_dt(a_dt(&a[1])), r_ts),
        "sub_interval_dt" => res(a_ts(&a[0]).sub_interval_dt(a_dt(&a[1])), r_ts),
        "add_interval_ym" => res(a_ts(&a[0]).add_interval_ym(a_ym(&a[1])), r_ts),
        "sub_interval_ym" => res(a_ts(&a[0]).sub_interval_ym(a_ym(&a[1])), r_ts),
        "add_time" => res(a_ts(&a[0]).add_time(a_time(&a[1])), r_ts),
        "sub_time" => res(a_ts(&a[0]).sub_time(a_time(&a[1])), r_ts),
        "add_days" => res(a_ts(&a[0]).add_days(a_f64(&a[1])), r_ts),
        "sub_days" => res(a_ts(&a[0]).sub_days(a_f64(&a[1])), r_ts),
        "sub_date" => ok(r_dt(a_ts(&a[0]).sub_date(a_date(&a[1])))),
        "sub_timestamp" => ok(r_dt(a_ts(&a[0]).sub_timestamp(a_ts(&a[1])))),
        "oracle_sub_date" => ok(r_dt(a_ts(&a[0]).oracle_sub_date(a_od(&a[1])))),
        "oracle_add_days" => res(a_ts(&a[0]).oracle_add_days(a_f64(&a[1])), r_od),
        "oracle_sub_days" => res(a_ts(&a[0]).oracle_sub_days(a_f64(&a[1])), r_od),
        "now" => res(Timestamp::now(), r_ts),
        "try_from_time" => res(Timestamp::try_from(a_time(&a[0])), r_ts),
        "last_day_of_month" => ok(r_ts(a_ts(&a[0]).last_day_of_month())),
        "cmp" => ok(r_ord(a_ts(&a[0]).cmp(&a_ts(&a[1])))),
        "ops" => ok(ops5(&a_ts(&a[0]), &a_ts(&a[1]))),
        "eq" => ok(r_bool(a_ts(&a[0]) == a_ts(&a[1]))),
        "hash_eq" => ok(r_bool(h(&a_ts(&a[0])) == h(&a_ts(&a[1])))),
        "cmp_d" => ok(cmp3(&a_ts(&a[0]), &a_date(&a[1]))),
        "ops_d" => ok(ops5(&a_ts(&a[0]), &a_date(&a[1]))),
        "eq_d" => ok(r_bool(a_ts(&a[0]) == a_date(&a[1]))),
        "cmp_od" => ok(cmp3(&a_ts(&a[0]), &a_od(&a[1]))),
        "ops_od" => ok(ops5(&a_ts(&a[0]), &a_od(&a[1]))),
        "eq_od" => ok(r_bool(a_ts(&a[0]) == a_od(&a[1]))),
        "format" => {
            let pic = a_txt(&a[1]);
            format_via!(Timestamp, a_ts(&a[0]), &pic)
        }
        "parse" => {
            let (t, p) = (a_txt(&a[0]), a_txt(&a[1]));
            parse_via!(Timestamp, &t, &p, r_ts)
        }
        "parse_reuse_at" => parse_reuse!(Timestamp, a, r_ts),
        "bin" => {
            let v = a_ts(&a[0]);
            ok(bin_roundtrip(&v, i64_of, |r| v3(r as i128), |b| bincode::deserialize::<Timestamp>(b).ok(), r_ts))
        }
        "unbin" => {
            let raw = a_i64(&a[0]);
            match bincode::deserialize::<Timestamp>(&raw.to_le_bytes()) {
                Ok(v) => ok(v3(v.usecs() as i128)),
                Err(_) => json!([1, 0]),
            }
        }
        _ => {
            if a.is_empty() {
                return None;
            }
            if let Some(r) = json_ops!(name, Timestamp, a, a_ts, r_ts) {
                return Some(r);
            }
            let v = a_ts(&a[0]);
            if let Some(r) = trunc_round!(name, v, r_ts) {
                return Some(r);
            }
            if let Some(r) = accessors!(name, v) {
                return Some(r);
            }
            return None;
        }
    })
}

fn exec_ym(name: &str, a: &[Value]) -> Option<Value> {
    Some(match name {
        "try_from_ym" => res(IntervalYM::try_from_ym(a_u32(&a[0]), a_u32(&a[1])), r_ym),
        "is_valid_ym" => ok(r_bool(IntervalYM::is_valid_ym(a_u32(&a[0]), a_u32(&a[1])))),
        "try_from_months" => res(IntervalYM::try_from_months(a_i32(&a[0])), r_ym),
        "months" => ok(json!(a_ym(&a[0]).months())),
        "extract" => {
            let (s, y, m) = a_ym(&a[0]).extract();
            ok(json!([sign(s), y, m]))
        }
        "add_interval_ym" => res(a_ym(&a[0]).add_interval_ym(a_ym(&a[1])), r_ym),
        "sub_interval_ym" => res(a_ym(&a[0]).sub_interval_ym(a_ym(&a[1])), r_ym),
        "mul_f64" => res(a_ym(&a[0]).mul_f64(a_f64(&a[1])), r_ym),
        "div_f64" => res(a_ym(&a[0]).div_f64(a_f64(&a[1])), r_ym),
        "neg" => ok(r_ym(-a_ym(&a[0]))),
        "cmp" => ok(r_ord(a_ym(&a[0]).cmp(&a_ym(&a[1])))),
        "ops" => ok(ops5(&a_ym(&a[0]), &a_ym(&a[1]))),
        "eq" => ok(r_bool(a_ym(&a[0]) == a_ym(&a[1]))),
        "hash_eq" => ok(r_bool(h(&a_ym(&a[0])) == h(&a_ym(&a[1])))),
        "format" => {
            let pic = a_txt(&a[1]);
            format_via!(IntervalYM, a_ym(&a[0]), &pic)
        }
        "parse" => {
            let (t, p) = (a_txt(&a[0]), a_txt(&a[1]));
            parse_via!(IntervalYM, &t, &p, r_ym)
        }
        "parse_reuse_at" => parse_reuse!(IntervalYM, a, r_ym),
        "bin" => {
            let v = a_ym(&a[0]);
            ok(bin_roundtrip(&v, i32_of, |r| json!(r), |b| bincode::deserialize::<IntervalYM>(b).ok(), r_ym))
        }
        "unbin" => {
            let raw = a_i32(&a[0]);
            match bincode::deserialize::<IntervalYM>(&raw.to_le_bytes()) {
                Ok(v) => ok(json!(v.months())),
                Err(_) => json!([1, 0]),
            }
        }
        _ => {
            if a.is_empty() {
                return None;
            }
            if let Some(r) = json_ops!(name, IntervalYM, a, a_ym, r_ym) {
                return Some(r);
            }
            let v = a_ym(&a[0]);
            if let Some(r) = accessors!(name, v) {
                return Some(r);
            }
            return None;
        }
    })
}

fn exec_dt(name: &str, a: &[Value]) -> Option<Value> {
    Some(match name {
        "try_from_dhms" => res(
            IntervalDT::try_from_dhms(a_u32(&a[0]), a_u32(&a[1]), a_u32(&a[2]), a_u32(&a[3]), a_u32(&a[4])),
            r_dt,
        ),
        "is_valid" => ok(r_bool(IntervalDT::is_valid(a_u32(&a[0]), a_u32(&a[1]), a_u32(&a[2]), a_u32(&a[3]), a_u32(&a[4])))),
        "try_from_usecs" => res(IntervalDT::try_from_usecs(a_i64(&a[0])), r_dt),
        "usecs" => ok(v3(a_dt(&a[0]).usecs() as i128)),
        "extract" => {
            let (s, d, hh, m, sec, u) = a_dt(&a[0]).extract();
            ok(json!([sign(s), d, hh, m, sec, u]))
        }
        "add_interval_dt" => res(a_dt(&a[0]).add_interval_dt(a_dt(&a[1])), r_dt),
        "sub_interval_dt" => res(a_dt(&a[0]).sub_interval_dt(a_dt(&a[1])), r_dt),
        "mul_f64" => res(a_dt(&a[0]).mul_f64(a_f64(&a[1])), r_dt),
        "div_f64" => res(a_dt(&a[0]).div_f64(a_f64(&a[1])), r_dt),
        "sub_time" => res(a_dt(&a[0]).sub_time(a_time(&a[1])), r_dt),
        "neg" => ok(r_dt(-a_dt(&a[0]))),
        "from_time" => ok(r_dt(IntervalDT::from(a_time(&a[0])))),
        "cmp" => ok(r_ord(a_dt(&a[0]).cmp(&a_dt(&a[1])))),
        "ops" => ok(ops5(&a_dt(&a[0]), &a_dt(&a[1]))),
        "eq" => ok(r_bool(a_dt(&a[0]) == a_dt(&a[1]))),
        "hash_eq" => ok(r_bool(h(&a_dt(&a[0])) == h(&a_dt(&a[1])))),
        "cmp_t" => ok(cmp3(&a_dt(&a[0]), &a_time(&a[1]))),
        "ops_t" => ok(ops5(&a_dt(&a[0]), &a_time(&a[1]))),
        "eq_t" => ok(r_bool(a_dt(&a[0]) == a_time(&a[1]))),
        "format" => {
            let pic = a_txt(&a[1]);
            format_via!(IntervalDT, a_dt(&a[0]), &pic)
        }
        "parse" => {
            let (t, p) = (a_txt(&a[0]), a_txt(&a[1]));
            parse_via!(IntervalDT, &t, &p, r_dt)
        }
        "parse_reuse_at" => parse_reuse!(IntervalDT, a, r_dt),
        "bin" => {
            let v = a_dt(&a[0]);
            ok(bin_roundtrip(&v, i64_of, |r| v3(r as i128), |b| bincode::deserialize::<IntervalDT>(b).ok(), r_dt))
        }
        "unbin" => {
            let raw = a_i64(&a[0]);
            match bincode::deserialize::<IntervalDT>(&raw.to_le_bytes()) {
                Ok(v) => ok(v3(v.usecs() as i128)),
                Err(_) => json!([1, 0]),
            }
        }
        _ => {
            if a.is_empty() {
                return None;
            }
            if let Some(r) = json_ops!(name, IntervalDT, a, a_dt, r_dt) {
                return Some(r);
            }
            let v = a_dt(&a[0]);
            if let Some(r) = accessors!(name, v) {
                return Some(r);
            }
            return None;
        }
    })
}

fn exec_od(name: &str, a: &[Value]) -> Option<Value> {
    Some(match name {
        "new" => ok(r_od(OracleDate::new(a_date(&a[0]), a_time(&a[1])))),
        "usecs" => ok(v3(a_od(&a[0]).usecs() as i128)),
        "extract" => {
            let (d, t) = a_od(&a[0]).extract();
            ok(json!([d.days(), t.usecs() / 1_000_000, t.usecs() % 1_000_000]))
        }
        "try_from_usecs" => res(OracleDate::try_from_usecs(a_i64(&a[0])), r_od),
        "from_ts" => ok(r_od(OracleDate::from(a_ts(&a[0])))),
        "to_ts" => ok(r_ts(Timestamp::from(a_od(&a[0])))),
        "try_from_time" => res(OracleDate::try_from(a_time(&a[0])), r_od),
        "add_interval_dt" => res(a_od(&a[0]).add_interval_dt(a_dt(&a[1])), r_od),
        "sub_interval_dt" => res(a_od(&a[0]).sub_interval_dt(a_dt(&a[1])), r_od),
        "add_interval_ym" => res(a_od(&a[0]).add_interval_ym(a_ym(&a[1])), r_od),
        "sub_interval_ym" => res(a_od(&a[0]).sub_interval_ym(a_ym(&a[1])), r_od),
        "add_time" => res(a_od(&a[0]).add_time(a_time(&a[1])), r_ts),
        "sub_time" => res(a_od(&a[0]).sub_time(a_time(&a[1])), r_ts),
        "add_days" => res(a_od(&a[0]).add_days(a_f64(&a[1])), r_od),
        "sub_days" => res(a_od(&a[0]).sub_days(a_f64(&a[1])), r_od),
        "sub_date" => {
            // f64 days -> whole seconds (exact: |error| < 1e-4 s, see DESIGN 3.2)
            let days = a_od(&a[0]).sub_date(a_od(&a[1]));
            let secs = (days * 86400.0).round() as i128;
            ok(v3(secs * 1_000_000))
        }
        "sub_timestamp" => ok(r_dt(a_od(&a[0]).sub_timestamp(a_ts(&a[1])))),
        "now" => res(OracleDate::now(), r_od),
        "last_day_of_month" => ok(r_od(a_od(&a[0]).last_day_of_month())),
        "cmp" => ok(r_ord(a_od(&a[0]).cmp(&a_od(&a[1])))),
        "ops" => ok(ops5(&a_od(&a[0]), &a_od(&a[1]))),
        "eq" => ok(r_bool(a_od(&a[0]) == a_od(&a[1]))),
        "hash_eq" => ok(r_bool(h(&a_od(&a[0])) == h(&a_od(&a[1])))),
        "cmp_ts" => ok(cmp3(&a_od(&a[0]), &a_ts(&a[1]))),
        "ops_ts" => ok(ops5(&a_od(&a[0]), &a_ts(&a[1]))),
        "eq_ts" => ok(r_bool(a_od(&a[0]) == a_ts(&a[1]))),
        "cmp_d" => ok(cmp3(&a_od(&a[0]), &a_date(&a[1]))),
        "ops_d" => ok(ops5(&a_od(&a[0]), &a_date(&a[1]))),
        "eq_d" => ok(r_bool(a_od(&a[0]) == a_date(&a[1]))),
        "to_time" => ok(r_time(Time::from(a_od(&a[0])))),
        "format" => {
            let pic = a_txt(&a[1]);
            format_via!(OracleDate, a_od(&a[0]), &pic)
        }
        "parse" => {
            let (t, p) = (a_txt(&a[0]), a_txt(&a[1]));
            parse_via!(OracleDate, &t, &p, r_od)
        }
        "parse_reuse_at" => parse_reuse!(OracleDate, a, r_od),
        "bin" => {
            let v = a_od(&a[0]);
            ok(bin_roundtrip(&v, i64_of, |r| v3(r as i128), |b| bincode::deserialize::<OracleDate>(b).ok(), r_od))
        }
        "unbin" => {
            let raw = a_i64(&a[0]);
            match bincode::deserialize::<OracleDate>(&raw.to_le_bytes()) {
                Ok(v) => ok(v3(v.usecs() as i128)),
                Err(_) => json!([1, 0]),
            }
        }
        _ => {
            if a.is_empty() {
                return None;
            }
            if let Some(r) = json_ops!(name, OracleDate, a, a_od, r_od) {
                return Some(r);
            }
            let v = a_od(&a[0]);
            if let Some(r) = trunc_round!(name, v, r_od) {
                return Some(r);
            }
            if let Some(r) = accessors!(name, v) {
                return Some(r);
            }
            return None;
        }
    })
}

/// every op name `exec` understands that is a safe public operation (used by
/// the orchestrator to cross-check the spec's action table)
pub const UNITS: [&str; 12] = [
    "century", "year", "iso_year", "quarter", "month", "week", "iso_week", "month_start_week", "day",
    "sunday_start_week", "hour", "minute",
];
