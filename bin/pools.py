"""Operand pools and operation signatures for the event plans (input
selection only - the verdict on every event is the specification's)."""
import math
import random
import struct

import vlib

DATE_MIN, DATE_MAX = -719162, 2932896
YM_MAX = 2136000000
DT_MAX_D = 100000000
I32_MIN, I32_MAX = -2147483648, 2147483647
U32_MAX = 4294967295


def fspec(x):
    """exact decoding of a Python float into the spec's form"""
    if math.isnan(x):
        return [2, 1, 0, 0, 0]
    if math.isinf(x):
        return [3, 1, 0, 0, 0] if x > 0 else [4, -1, 0, 0, 0]
    bits = struct.unpack('<Q', struct.pack('<d', x))[0]
    sg = -1 if bits >> 63 else 1
    ex = (bits >> 52) & 0x7ff
    frac = bits & ((1 << 52) - 1)
    mant, e = (frac, -1074) if ex == 0 else (frac | (1 << 52), ex - 1075)
    if mant == 0:
        return [0, sg, 0, 0, 0]
    return [0, sg, mant >> 27, mant & ((1 << 27) - 1), e]


def us3(us):
    d, r = divmod(us, 86400 * 10**6)
    return [d, r // 10**6, r % 10**6]


def dn(y, m, d):
    return vlib.dayno(y, m, d)


def binary_bands(rnd, mx, ks=range(7, 41)):
    """Microsecond counts at and inside the binary bands of every clock unit: unit * 2^k (-1, 0, +1 microsecond) and a
    point in the middle of the band [2^k, 2^(k+1)) - where a count of microseconds / seconds / minutes / hours / days
    crosses an 8/16/32-bit width (narrowing casts, 'fast paths' for small values)."""
    out = []
    for unit in (1, 10**6, 60 * 10**6, 3600 * 10**6, 86400 * 10**6):
        for k_ in ks:
            base = unit * 2**k_
            for x in (base - 1, base, base + 1, base + base // 2 + rnd.randint(0, max(1, unit - 1)), base + rnd.randint(0, base - 1)):
                if abs(x) <= mx:
                    out += [x, -x]
    return out


def uniq(xs):
    seen, out = set(), []
    for x in xs:
        k = repr(x)
        if k not in seen:
            seen.add(k)
            out.append(x)
    return out


class Pools:
    def __init__(self, seed, scale=1):
        rnd = random.Random(seed)
        self.rnd = rnd
        n = lambda k: int(k * scale)
        self.dates = uniq([
            DATE_MIN, DATE_MIN + 1, DATE_MIN + 6, DATE_MAX - 1, DATE_MAX, -1, 0, 1,
            dn(2000, 2, 29), dn(2000, 3, 1), dn(1900, 2, 28), dn(1900, 3, 1), dn(2024, 2, 29), dn(2023, 12, 31),
            dn(2024, 1, 1), dn(9999, 1, 1), dn(1, 12, 31), dn(1582, 10, 4), dn(1582, 10, 15), dn(2001, 1, 1),
            dn(2000, 12, 31), dn(2021, 1, 31), dn(2021, 3, 31), dn(2021, 5, 31), dn(2021, 8, 31), dn(2020, 12, 31),
            dn(9950, 6, 15), dn(9951, 1, 1), dn(9999, 7, 1), dn(9999, 6, 30), dn(9999, 12, 16), dn(9999, 12, 15),
            dn(1969, 12, 31), dn(1970, 1, 2), dn(2021, 1, 3), dn(2021, 1, 4), dn(2019, 12, 30), dn(1, 1, 7)]
            + [rnd.randint(DATE_MIN, DATE_MAX) for _ in range(n(16))])
        self.times = uniq([[0, 0], [0, 1], [43199, 999999], [43200, 0], [86399, 999999], [86399, 0], [3600, 0],
                           [59, 999999], [1799, 999999], [1800, 0], [86370, 0], [86369, 999999], [1, 0], [0, 500000],
                           [0, 499999], [45296, 789012]]
                          + [[rnd.randint(0, 86399), rnd.randint(0, 999999)] for _ in range(n(8))])
        # times of day whose microsecond count - or whose distance to the next midnight - is a multiple of 2^32
        # (a narrowing cast of the count / of the remainder before 1970 aliases them to zero), one of 2^31 on top (sign bit)
        day_us = 86400 * 10**6
        alias = []
        for k_ in range(1, 21):
            for t_ in (k_ * 2**32, day_us - k_ * 2**32, k_ * 2**32 + 2**31, day_us - k_ * 2**32 - 2**31):
                if 0 <= t_ < day_us:
                    alias.append([t_ // 10**6, t_ % 10**6])
        self.alias_times = alias
        pick = rnd.sample(alias, 6) + [alias[0], alias[1]]
        self.times = uniq(self.times + pick)
        crit_t = [[0, 0], [0, 1], [43200, 0], [43199, 999999], [86399, 999999], [0, 500000], [0, 499999], [86399, 0]]
        self.ts = uniq([[d, t[0], t[1]] for d in self.dates[:20] for t in crit_t[:5]] +
                       [[d, t[0], t[1]] for d in self.dates[20:] for t in crit_t[5:7]] +
                       [[rnd.randint(DATE_MIN, DATE_MAX), rnd.randint(0, 86399), rnd.randint(0, 999999)] for _ in range(n(16))])
        # range ends first: plan_for crosses the first entries of every pool exhaustively
        self.ts = uniq([[DATE_MAX, 86399, 999999], [DATE_MIN, 0, 0], [DATE_MAX, 86399, 0], [DATE_MAX, 86399, 500000],
                        [DATE_MAX, 86399, 499999], [DATE_MIN, 0, 1], [0, 0, 0], [-1, 86399, 999999]] + self.ts)
        self.ts = uniq(self.ts + [[d, t[0], t[1]] for d in (-1, -7305, 0, 19782, DATE_MIN + 40) for t in pick[:4]])
        self.od = uniq([[DATE_MAX, 86399, 0], [DATE_MIN, 0, 0], [DATE_MAX, 86398, 0], [DATE_MIN, 1, 0], [0, 0, 0],
                        [-1, 86399, 0], [DATE_MAX, 0, 0], [DATE_MAX - 1, 86399, 0]] + [[x[0], x[1], 0] for x in self.ts])
        self.ym = uniq([0, 1, -1, 11, 12, 13, -11, -12, -13, YM_MAX, -YM_MAX, YM_MAX - 1, -YM_MAX + 1, 119988, -119988,
                        119976, 119987, 24000, -24000, 1200, -1200, 2, -2, 6, 25]
                       + [rnd.randint(-YM_MAX, YM_MAX) for _ in range(n(6))] + [rnd.randint(-3000, 3000) for _ in range(n(6))])
        dtmax = DT_MAX_D * 86400 * 10**6
        dts = [0, 1, -1, 10**6, -10**6, 86400 * 10**6, -86400 * 10**6, 86400 * 10**6 - 1, -86400 * 10**6 + 1,
               dtmax, -dtmax, dtmax - 1, -dtmax + 1, 3652058 * 86400 * 10**6, -3652058 * 86400 * 10**6,
               3652059 * 86400 * 10**6 - 1, -(3652059 * 86400 * 10**6 - 1), 3652059 * 86400 * 10**6,
               2**53, 2**53 + 1, -(2**53) - 1, 43200 * 10**6, 500000, 499999, -500000, 7 * 86400 * 10**6,
               7000000 * 86400 * 10**6, -7000000 * 86400 * 10**6, 59999999, 3599999999, 93784005006,
               31 * 86400 * 10**6 + 5, 32 * 86400 * 10**6, -32 * 86400 * 10**6 - 1, 33 * 86400 * 10**6, 99 * 86400 * 10**6,
               100 * 86400 * 10**6 + 3600 * 10**6, 9 * 86400 * 10**6, 10 * 86400 * 10**6,
               2**31, 2**31 - 1, -2**31, -2**31 - 1, 2**32, -2**32, 2**32 + 1, 3 * 2**32, -5 * 2**32, 2**33 - 1]
        dts += [rnd.randint(-dtmax, dtmax) for _ in range(n(6))] + [rnd.randint(-10**12, 10**12) for _ in range(n(6))]
        self.dt = uniq([us3(x) for x in dts])
        self.i32 = uniq([0, 1, -1, I32_MIN, I32_MAX, I32_MIN + 1, 3652058, -3652058, 3652059, -3652059, 719162, -719162,
                         2932896, 2932897, -719163, 365, -366, 146097]
                        + [rnd.randint(-4000000, 4000000) for _ in range(n(6))])
        self.u32 = [0, 1, 2, 11, 12, 13, 23, 24, 28, 29, 30, 31, 32, 59, 60, 61, 99, 365, 366, 999, 9999, 10000,
                    999999, 1000000, 1000001, 99999999, 100000000, 100000001, 177999999, 178000000, 178000001,
                    2147483647, 2147483648, 4294967295, 4294967284]
        raw = [0, -1, 1, 86400 * 10**6 - 1, 86400 * 10**6, -86400 * 10**6,
               DATE_MIN * 86400 * 10**6, DATE_MIN * 86400 * 10**6 - 1, (DATE_MAX + 1) * 86400 * 10**6 - 1,
               (DATE_MAX + 1) * 86400 * 10**6, (DATE_MAX + 1) * 86400 * 10**6 - 10**6, dtmax, dtmax + 1, -dtmax, -dtmax - 1,
               2**63 - 1, -2**63, 2**62, 999999, 1000000, -1000000, -999999, 500000]
        raw += [rnd.randint(-2**63, 2**63 - 1) for _ in range(n(4))] + [rnd.randint(-10**17, 3 * 10**17) for _ in range(n(6))]
        self.i64 = uniq([us3(x) for x in raw])
        fl = [0.0, -0.0, 1.0, -1.0, 0.5, -0.5, 1.5, 2.0, 3.0, 7.0, 10.0, 1000.0, 1.0 / 3.0, 0.1, -0.1, 0.7, 1e-7, 2.0**-20,
              1e300, -1e300, 1e-300, 5e-324, float('inf'), float('-inf'), float('nan'), 3652058.0, 3652059.0,
              -719162.0, 719162.5, 1e15, 1e10, 0.5 + 2.0**-30, 0.999999999, 1.0000001, 12.345, 86400.0, 1e6,
              2.0**31, 2.0**53, 2.0**63, 1.7976931348623157e308, 0.49999999, 2.5, 1e8, 1e9, 123456789.125,
              0.4999995 / 86400.0, 0.5000005 / 86400.0, 1.4999994 / 86400.0, 0.5 / 86400.0, 1.5 / 86400.0,
              0.0000005 / 86400.0, 0.00000049 / 86400.0,
              0.49999 / 86400.0, 0.49998 / 86400.0, 0.50001 / 86400.0, 1.49999 / 86400.0, -0.49999 / 86400.0,
              -0.50001 / 86400.0, 0.499985 / 86400.0, 0.500015 / 86400.0, 2.499995 / 86400.0,
              # microsecond counts in [2^52, 2^53): the double product is an integer already
              65536.1, 70000.3, 99999.99999, 86400.000011574, math.nextafter(60000.0, 1e9), -math.nextafter(60000.0, 1e9),
              math.nextafter(75000.0, 0.0), 52125.0 + 1.0 / 3.0, 104000.7, -88888.123456789]
        fl += [rnd.uniform(-1000, 1000) for _ in range(n(5))] + [rnd.uniform(-2, 2) for _ in range(n(5))]
        fl += [float(rnd.randint(-5000, 5000)) for _ in range(n(5))]
        self.f64 = uniq([fspec(x) for x in fl])
        # field grids: every combination of the clock fields at 0 / 1 / their maximum (a field that is exactly 0 or exactly
        # one unit while its neighbours are 0 or full: carries, borrow and "skip the zero field" shortcuts)
        self.t_grid = [[h * 3600 + mi * 60 + sc, us] for h in (0, 1, 12, 23) for mi in (0, 1, 59) for sc in (0, 1, 59)
                       for us in (0, 1, 999999)]
        self.dt_grid = [us3(sg * ((d * 86400 + h * 3600 + mi * 60 + sc) * 10**6 + us)) for sg in (1, -1) for d in (0, 45)
                        for h in (0, 7, 23) for mi in (0, 1, 59) for sc in (0, 1, 59) for us in (0, 1, 999999)]
        self.dt_grid += [us3(x) for x in binary_bands(rnd, dtmax, ks=(15, 16, 31, 32))]
        self.unit = list(range(1, 13))
        self.clock = [[2024, 2, 29, 13, 14, 15, 123456], [1, 1, 1, 0, 0, 0, 0], [9999, 12, 31, 23, 59, 59, 999999],
                      [10000, 1, 1, 0, 0, 0, 0], [0, 12, 31, 12, 0, 0, 0], [1970, 1, 1, 0, 0, 0, 1], [2023, 1, 31, 1, 2, 3, 4]]

    def pool(self, ty):
        return {"D": self.dates, "T": self.times, "TS": self.ts, "OD": self.od, "YM": self.ym, "DT": self.dt,
                "i32": self.i32, "u32": self.u32, "i64": self.i64, "f64": self.f64, "unit": self.unit,
                "clock": self.clock, "bit": [0, 1]}[ty]


# op -> argument types
SIG = {
    "D.try_from_ymd": ["i32", "u32", "u32"], "D.is_valid": ["i32", "u32", "u32"], "D.try_from_days": ["i32"],
    "D.days": ["D"], "D.extract": ["D"], "D.and_hms": ["D", "u32", "u32", "u32", "u32"], "D.and_time": ["D", "T"],
    "D.add_time": ["D", "T"], "D.to_ts": ["D"], "D.add_days": ["D", "i32"], "D.sub_days": ["D", "i32"],
    "D.sub_date": ["D", "D"], "D.add_interval_ym": ["D", "YM"], "D.sub_interval_ym": ["D", "YM"],
    "D.add_interval_dt": ["D", "DT"], "D.sub_interval_dt": ["D", "DT"], "D.sub_time": ["D", "T"],
    "D.sub_timestamp": ["D", "TS"], "D.day_of_week": ["D"], "D.last_day_of_month": ["D"], "D.trunc": ["D", "unit"],
    "D.round": ["D", "unit"], "D.acc": ["D"], "D.ord": ["D", "D"], "D.ord_ts": ["D", "TS"], "D.ord_od": ["D", "OD"],
    "D.now_at": ["clock"],
    "T.try_from_hms": ["u32", "u32", "u32", "u32"], "T.is_valid": ["u32", "u32", "u32", "u32"],
    "T.try_from_usecs": ["i64"], "T.usecs": ["T"], "T.extract": ["T"], "T.sub_time": ["T", "T"],
    "T.add_interval_dt": ["T", "DT"], "T.sub_interval_dt": ["T", "DT"], "T.from_ts": ["TS"], "T.from_od": ["OD"],
    "T.from_dt": ["DT"], "T.acc": ["T"], "T.ord": ["T", "T"], "T.ord_dt": ["T", "DT"], "T.mul_f64": ["T", "f64"],
    "T.div_f64": ["T", "f64"],
    "TS.new": ["D", "T"], "TS.extract": ["TS"], "TS.usecs": ["TS"], "TS.try_from_usecs": ["i64"],
    "TS.add_interval_dt": ["TS", "DT"], "TS.sub_interval_dt": ["TS", "DT"], "TS.add_time": ["TS", "T"],
    "TS.sub_time": ["TS", "T"], "TS.add_interval_ym": ["TS", "YM"], "TS.sub_interval_ym": ["TS", "YM"],
    "TS.add_days": ["TS", "f64"], "TS.sub_days": ["TS", "f64"], "TS.oracle_add_days": ["TS", "f64"],
    "TS.oracle_sub_days": ["TS", "f64"], "TS.sub_date": ["TS", "D"], "TS.sub_timestamp": ["TS", "TS"],
    "TS.oracle_sub_date": ["TS", "OD"], "TS.last_day_of_month": ["TS"], "TS.trunc": ["TS", "unit"],
    "TS.round": ["TS", "unit"], "TS.acc": ["TS"], "TS.ord": ["TS", "TS"], "TS.ord_d": ["TS", "D"],
    "TS.ord_od": ["TS", "OD"], "TS.now_at": ["clock"], "TS.from_time_at": ["clock", "T"],
    "YM.try_from_ym": ["u32", "u32"], "YM.is_valid_ym": ["u32", "u32"], "YM.try_from_months": ["i32"],
    "YM.months": ["YM"], "YM.extract": ["YM"], "YM.add_interval_ym": ["YM", "YM"], "YM.sub_interval_ym": ["YM", "YM"],
    "YM.neg": ["YM"], "YM.acc": ["YM"], "YM.ord": ["YM", "YM"], "YM.mul_f64": ["YM", "f64"], "YM.div_f64": ["YM", "f64"],
    "DT.try_from_dhms": ["u32", "u32", "u32", "u32", "u32"], "DT.is_valid": ["u32", "u32", "u32", "u32", "u32"],
    "DT.try_from_usecs": ["i64"], "DT.usecs": ["DT"], "DT.extract": ["DT"], "DT.add_interval_dt": ["DT", "DT"],
    "DT.sub_interval_dt": ["DT", "DT"], "DT.sub_time": ["DT", "T"], "DT.neg": ["DT"], "DT.from_time": ["T"],
    "DT.acc": ["DT"], "DT.ord": ["DT", "DT"], "DT.ord_t": ["DT", "T"], "DT.mul_f64": ["DT", "f64"],
    "DT.div_f64": ["DT", "f64"],
    "OD.new": ["D", "T"], "OD.usecs": ["OD"], "OD.extract": ["OD"], "OD.try_from_usecs": ["i64"], "OD.from_ts": ["TS"],
    "OD.to_ts": ["OD"], "OD.to_time": ["OD"], "OD.add_interval_dt": ["OD", "DT"], "OD.sub_interval_dt": ["OD", "DT"],
    "OD.add_interval_ym": ["OD", "YM"], "OD.sub_interval_ym": ["OD", "YM"], "OD.add_time": ["OD", "T"],
    "OD.sub_time": ["OD", "T"], "OD.add_days": ["OD", "f64"], "OD.sub_days": ["OD", "f64"], "OD.sub_date": ["OD", "OD"],
    "OD.sub_timestamp": ["OD", "TS"], "OD.last_day_of_month": ["OD"], "OD.trunc": ["OD", "unit"],
    "OD.round": ["OD", "unit"], "OD.acc": ["OD"], "OD.ord": ["OD", "OD"], "OD.ord_ts": ["OD", "TS"],
    "OD.ord_d": ["OD", "D"], "OD.now_at": ["clock"], "OD.from_time_at": ["clock", "T"],
    # C17 composites (same operation through the three types)
    "AG.dt": ["D", "DT", "bit"], "AG.ym": ["D", "YM", "bit"], "AG.dt2": ["OD", "DT", "bit"], "AG.ym2": ["OD", "YM", "bit"],
    "AG.ldm": ["D"], "AG.ldm2": ["OD"], "AG.diff": ["D", "TS"], "AG.diff2": ["OD", "TS"],
    "AG.cmp_d_ts": ["D", "TS"], "AG.cmp_od_ts": ["OD", "TS"], "AG.cmp_od_d": ["OD", "D"],
    "AG.trunc": ["OD", "unit"], "AG.round": ["OD", "unit"],
}


HEAVY = {"f64"}   # argument types whose spec clauses use big-integer arithmetic


def plan_for(ops, pools, cap=3000, rnd=None, heavy_cap=1200):
    """All operand tuples from the pools for each op; if the product exceeds
    `cap`, every pool value still appears (diagonal cover) plus random tuples."""
    rnd = rnd or pools.rnd
    plan = []
    for op in ops:
        ps = [pools.pool(t) for t in SIG[op]]
        total = 1
        for p in ps:
            total *= len(p)
        cap_ = min(cap, heavy_cap) if any(t in HEAVY for t in SIG[op]) else cap
        if total <= cap_:
            idx = [[]]
            for p in ps:
                idx = [i + [x] for i in idx for x in p]
            plan += [(op, a) for a in idx]
        else:
            seen = set()
            m = max(len(p) for p in ps)
            out = []
            # exhaustive core: the first (boundary) entries of every pool x every float
            core = [[]]
            for t, p in zip(SIG[op], ps):
                sel = p if t in ("f64", "unit", "bit") else p[:8]
                core = [i + [x] for i in core for x in sel]
                if len(core) > cap_:
                    break
            if len(core) <= cap_:
                out += core
            for sh in range(3):
                for k in range(m):
                    a = [p[(k + sh * j * 7) % len(p)] for j, p in enumerate(ps)]
                    out.append(a)
            while len(out) < cap_:
                out.append([rnd.choice(p) for p in ps])
            for a in out:
                key = repr(a)
                if key not in seen:
                    seen.add(key)
                    plan.append((op, a))
    return plan
