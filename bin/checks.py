"""Per-property checks.  Each function receives a vlib.Verdict, runs
(A) TLC on the specification itself and (B) the conformance runs that bind
the specification to /repo's current working tree, and records mismatches."""
import datetime
import json
import os
import shutil

import vlib
from vlib import ToolError, log

UNITS = ["century", "year", "isoyear", "quarter", "month", "week", "isoweek", "monthweek", "day",
         "sunweek", "hour", "minute"]
REGISTRY = {}


def prop(name):
    def deco(fn):
        REGISTRY[name] = fn
        return fn
    return deco


def civil(n):
    d = datetime.date.fromordinal(n + 719163)
    return d.year, d.month, d.day


# --------------------------------------------------------------------------
# (A) model checking of the calendar walker
# --------------------------------------------------------------------------
def calwalk(v, years, invariants, tag):
    wd = vlib.workdir("%s_calwalk_%s" % (v.prop, tag))
    cfg = os.path.join(wd, "MC.cfg")
    with open(cfg, "w") as fh:
        fh.write("SPECIFICATION Spec\nCONSTANTS\n YearSet = {%s}\n" % ",".join(str(y) for y in years))
        fh.write("INVARIANTS %s\nCHECK_DEADLOCK FALSE\n" % " ".join(invariants))
    res = vlib.tlc("CalWalk.tla", cfg, workers=max(4, vlib.NCPU - 2), xmx="8g", timeout=3000)
    v.add_tlc(res, "tlc -config MC.cfg CalWalk.tla (YearSet: %d years; invariants %s)" % (len(years), " ".join(invariants)))
    if res.errors:
        raise ToolError("CalWalk: the specification violates its own invariants:\n" + "\n".join(res.errors) + res.out[-2000:])
    expect = 0
    for y in years:
        expect += 2 * ((366 if (y % 4 == 0 and (y % 100 != 0 or y % 400 == 0)) else 365))
    v.notes.append("CalWalk(%s): %d years, %d distinct states, %.0fs" % (tag, len(years), res.distinct, res.wall))
    shutil.rmtree(wd, ignore_errors=True)
    return res


CALWALK_INVS = ["ClosedFormsAgree", "EpochIsThursday", "RangeEnds", "TruncIsLastStart", "NextBIsNextStart",
                "TruncFacts", "RoundFacts", "IsoYearFacts", "TruncFailsOnlyThere"]


def calwalk_years(v):
    if v.tier == "thorough":
        return list(range(1, 10000))
    ys = set(vlib.QUICK_YEARS)
    ys.update(range(1, 10000, 41))
    return sorted(ys)


# --------------------------------------------------------------------------
# (B) walker-driven trace validation of day sweeps
# --------------------------------------------------------------------------
def daysweep(v, tag, ranges, groups, wanted, shard_records, extra=None, jobs=None):
    """Records the sweep shard by shard from the real crate and validates each
    shard with DaySweep.tla.  `wanted`: names of the checks that belong to the
    property being decided (others are decided by their own property)."""
    exe = vlib.build_harness("release")
    wd = vlib.workdir("%s_%s" % (v.prop, tag))
    shards = vlib.split_ranges(ranges, shard_records)
    cfg = os.path.join(vlib.SPEC, "DaySweep.cfg")
    total_days = vlib.count_days(ranges)
    log("[%s] daysweep %s: %d days in %d shards, groups=%s" % (v.prop, tag, total_days, len(shards), groups))

    def one(k):
        rfile = os.path.join(wd, "r%d.txt" % k)
        with open(rfile, "w") as fh:
            for a, b in shards[k]:
                fh.write("%d %d\n" % (a, b))
        tfile = os.path.join(wd, "t%d.ndjson" % k)
        args = ["daysweep", "--out", tfile, "--ranges", "@" + rfile, "--groups", groups, "--seed", str(v.seed * 1000 + k)] + (extra or [])
        vlib.vh(args)
        res = vlib.tlc("DaySweep.tla", cfg, env={"TRACE": tfile}, workers=1, xmx="3g", timeout=1800,
                       metadir=os.path.join(wd, "meta%d" % k))
        acc = res.tagged("ACCEPTED")
        if not acc or res.errors:
            raise ToolError("DaySweep shard %d of %s not accepted by TLC:\n%s" % (k, tag, res.out[-3000:]))
        mism = res.tagged("MISMATCH")
        out = []
        if mism:
            lines = open(tfile).read().splitlines()
            for mm in mism:
                pos, n, failed = mm[1], mm[2], mm[3]["#set"]
                rec = json.loads(lines[pos - 1])
                for fl in failed:
                    if len(fl) == 3:
                        j, name, i = fl
                        e = rec["tm"][j - 1]
                    else:
                        (name, i), j, e = fl, 0, None
                    if name not in wanted:
                        continue
                    y, m, d = civil(n)
                    key = {"check": name, "n": n, "y": y, "m": m, "d": d}
                    if i:
                        key["unit"] = UNITS[i - 1]
                    det = {}
                    if e is not None:
                        key["t"] = e["t"]
                        fld = {"ttr": "tr", "trd": "rd", "otr": "otr", "ord": "ord"}.get(name)
                        if fld:
                            det["observed"] = e[fld][i - 1]
                        elif name.startswith("agree"):
                            det["ts"] = [e.get("tr", [None] * 12)[i - 1], e.get("rd", [None] * 12)[i - 1]]
                            det["od"] = [e.get("otr", [None] * 12)[i - 1], e.get("ord", [None] * 12)[i - 1]]
                            det["date"] = [rec.get("tr", [None] * 12)[i - 1], rec.get("rd", [None] * 12)[i - 1]]
                        elif name in e:
                            det["observed"] = e[name]
                    else:
                        if name in ("tr", "rd"):
                            det["observed"] = rec[name][i - 1]
                        elif name in ("trmono", "rdmono"):
                            det["observed"] = rec[name[:2]][i - 1]
                        elif name in rec:
                            det["observed"] = rec[name]
                    out.append((key, det))
        sample = None
        if k == 0:
            with open(tfile) as fh:
                sample = fh.readline()[:700]
        os.remove(tfile)
        return res, acc[0], out, sample

    results = vlib.parallel(one, list(range(len(shards))), jobs=jobs)
    for res, acc, out, sample in results:
        v.add_tlc(res, "TRACE=<shard.ndjson> tlc -workers 1 -config DaySweep.cfg DaySweep.tla")
        v.cov["traces_validated_against_impl"] += 1
        v.cov["evaluations"] += acc[1]
        v.cov["distinct_nontrivial"] += acc[1]
        if sample:
            v.sample({"daysweep_record": sample})
        for key, det in out:
            v.mismatch("DaySweep:" + key["check"], key, det)
    shutil.rmtree(wd, ignore_errors=True)
    return total_days


def sweep_ranges(v, what):
    """Day windows (DESIGN section 7): quick = boundary-rich years (+ the edges of
    every year for cheap groups); thorough = every day."""
    if v.tier == "thorough":
        return vlib.ALL_DAYS
    if what == "full":
        return vlib.year_ranges(vlib.QUICK_YEARS)
    return vlib.merge_ranges(vlib.year_ranges(vlib.QUICK_YEARS) + vlib.edge_ranges())


# --------------------------------------------------------------------------
# spec -> impl: TLC-generated behaviours replayed on the real crate
# --------------------------------------------------------------------------
def replay_plan(v, tag, plan, profile="release"):
    """plan: list of (op, args, expect) with expect a predicate description:
    ("eq", value) | ("in", [values]) | ("err",) | ("errk", kind) | ("okrange",)
    Executes on the crate; returns list of (op,args,result) that violate."""
    wd = vlib.workdir("%s_%s" % (v.prop, tag))
    pf = os.path.join(wd, "plan.ndjson")
    with open(pf, "w") as fh:
        for op, args, _ in plan:
            fh.write(json.dumps({"op": op, "a": args}) + "\n")
    of = os.path.join(wd, "out.ndjson")
    vlib.vh(["events", "--out", of, "--plan", pf], profile=profile)
    bad = []
    with open(of) as fh:
        for (op, args, exp), line in zip(plan, fh):
            r = json.loads(line)["r"]
            if not expect_ok(exp, r):
                bad.append((op, args, r, exp))
    v.cov["evaluations"] += len(plan)
    shutil.rmtree(wd, ignore_errors=True)
    return bad


def expect_ok(exp, r):
    k = exp[0]
    if k == "eq":
        return r == exp[1]
    if k == "in":
        return r in exp[1]
    if k == "err":
        return isinstance(r, list) and len(r) == 2 and r[0] == 1
    if k == "errk":
        return r == [1, exp[1]]
    if k == "nopanic":
        return not (isinstance(r, list) and len(r) == 2 and r[0] == 2)
    raise ToolError("bad expectation %r" % (exp,))


# ==========================================================================
# C01
# ==========================================================================
@prop("C01")
def c01(v):
    v.cov["rule"] = ("(A) CalWalk.tla: the day-successor relation walked forward and backward, every closed form of "
                     "Cal/Units compared with it in every state; (B) DaySweep.tla validates one record per day number "
                     "recorded from the crate (extract, try_from_ymd, try_from_days, is_valid, day_of_week, accessors, "
                     "order/eq/hash vs previous day); TripleGen.tla generates (y,m,d) triples / raw day numbers with the "
                     "demanded verdict which are replayed on the crate. distinct_nontrivial = distinct day numbers + "
                     "distinct triples judged.")
    calwalk(v, calwalk_years(v), CALWALK_INVS, "c01")
    wanted = {"ymd", "rt", "fd", "valid", "dow", "acc", "ordp", "eq", "ldm"}
    daysweep(v, "cal", sweep_ranges(v, "edges"), "cal", wanted, 40000)
    # spec -> impl: triples
    if v.tier == "thorough":
        years = list(range(-1, 10002))
    else:
        years = sorted(set(vlib.QUICK_YEARS + [-1, 0, 10000, 10001] + list(range(7, 10000, 97))))
    years += [-2147483647, 2147483647, -32768, 32768, 65536]
    raw = sorted(set([-719162 + k for k in range(-3, 4)] + [2932896 + k for k in range(-3, 4)] +
                     [0, -1, 1, -2147483647, 2147483647, -719163 - 365, 2932897 + 366, 1000000000, -1000000000]))
    wd = vlib.workdir("C01_triplegen")
    # split the years over several TLC runs (PrintT output is the bottleneck)
    chunks = [years[i::8] for i in range(8)]

    def gen(k):
        cfg = os.path.join(wd, "g%d.cfg" % k)
        mod = vlib.mc_module(wd, "MCTripleGen%d" % k, "TripleGen", {
            "MCYears": "{%s}" % ",".join(map(str, chunks[k])),
            "MCRaw": "{%s}" % ",".join(map(str, raw if k == 0 else raw[:1]))})
        with open(cfg, "w") as fh:
            fh.write("SPECIFICATION Spec\nCONSTANTS\n Years <- MCYears\n RawDays <- MCRaw\nINVARIANTS VerdictIsReal Emit\nCHECK_DEADLOCK FALSE\n")
        res = vlib.tlc(mod, cfg, workers=1, xmx="2g", timeout=1800, metadir=os.path.join(wd, "m%d" % k), cwd=wd)
        if res.errors:
            raise ToolError("TripleGen: spec invariant violated:\n" + "\n".join(res.errors) + res.out[-1500:])
        return res
    plan = []
    seen = set()
    for res in vlib.parallel(gen, list(range(8))):
        v.add_tlc(res, "tlc -config gen.cfg TripleGen.tla")
        for g in res.tagged("GEN"):
            if g[1] == "ymd":
                _, _, y, m, d, verdict, n = g
                if (y, m, d) in seen:
                    continue
                seen.add((y, m, d))
                plan.append(("D.try_from_ymd", [y, m, d], ("eq", [0, n]) if verdict == 0 else ("errk", verdict)))
                plan.append(("D.is_valid", [y, m, d], ("eq", 1 if verdict == 0 else 0)))
            else:
                _, _, n, verdict = g
                if ("day", n) in seen:
                    continue
                seen.add(("day", n))
                plan.append(("D.try_from_days", [n], ("eq", [0, n]) if verdict == 0 else ("errk", verdict)))
    shutil.rmtree(wd, ignore_errors=True)
    # month/day arguments beyond the grid (u32 extremes) - verdict from the same rule: month / day error
    bad = replay_plan(v, "triples", plan)
    v.cov["distinct_nontrivial"] += len(plan)
    v.cov["traces_validated_against_impl"] += 1
    v.sample({"generated_behaviours": [list(p[:2]) + [list(p[2])] for p in plan[:3]]})
    for op, args, r, exp in bad:
        v.mismatch("TripleGen:" + op, {"check": op, "args": args}, {"observed": r, "expected": list(exp)})
    v.cov["exhaustive"] = v.tier == "thorough"


# ==========================================================================
# C10 / C11 / C17
# ==========================================================================
TR_GROUPS = "dtr,ttr,otr"


@prop("C10")
def c10(v):
    v.cov["rule"] = ("(A) CalWalk.tla: forward walker remembers the last unit start seen (declarative IsStart per unit); "
                     "TLC checks closed-form TruncDay = that, idempotent, never forward, fails only for the Sunday week of "
                     "0001-01-01..06. (B) DaySweep.tla: per day the 12 trunc_* results on Date, on Timestamp and OracleDate "
                     "at critical + random times of day, judged against the walker frame, monotone vs previous day. "
                     "distinct_nontrivial = distinct day numbers judged (each with 12 units x 3 types x times).")
    calwalk(v, calwalk_years(v), ["ClosedFormsAgree", "TruncIsLastStart", "TruncFacts", "IsoYearFacts", "TruncFailsOnlyThere"], "c10")
    daysweep(v, "trunc", sweep_ranges(v, "full"), TR_GROUPS, {"tr", "ttr", "otr", "trmono"}, 2500, extra=["--ntimes", "3"])
    if v.tier == "quick":
        daysweep(v, "trunc_edges", vlib.edge_ranges(), "dtr", {"tr", "trmono"}, 30000)
    v.cov["exhaustive"] = v.tier == "thorough"


@prop("C11")
def c11(v):
    v.cov["rule"] = ("(A) CalWalk.tla: backward walker gives the next unit start; TLC checks RoundDays subset of "
                     "{TruncDay, NextBDay}, boundary unchanged, on every day. (B) DaySweep.tla: the 12 round_* results on "
                     "Date/Timestamp/OracleDate per day at critical times (around 12:00, :30, :30) and random times, judged "
                     "against the documented midpoint rule; monotone vs previous day except ISO year. "
                     "distinct_nontrivial = distinct day numbers judged.")
    calwalk(v, calwalk_years(v), ["ClosedFormsAgree", "NextBIsNextStart", "RoundFacts", "IsoYearFacts"], "c11")
    daysweep(v, "round", sweep_ranges(v, "full"), TR_GROUPS, {"rd", "trd", "ord", "rdmono"}, 2500, extra=["--ntimes", "3"])
    if v.tier == "quick":
        daysweep(v, "round_edges", vlib.edge_ranges(), "dtr", {"rd", "rdmono"}, 30000)
    v.cov["exhaustive"] = v.tier == "thorough"


def replay(path):
    """Re-runs the check a replay file came from (same property, tier, seed)."""
    rp = json.load(open(path))
    v = vlib.Verdict(rp["property"], rp["tier"], rp["seed"])
    REGISTRY[rp["property"]](v)
    return v.finish()
