"""Per-property checks.  Each function receives a vlib.Verdict, runs
(A) TLC on the specification itself and (B) the conformance runs that bind
the specification to /repo's current working tree, and records mismatches."""
import datetime
import json
import os
import re
import shutil

import vlib
from vlib import ToolError, log

UNITS = ["century", "year", "isoyear", "quarter", "month", "week", "isoweek", "monthweek", "day",
         "sunweek", "hour", "minute"]
REGISTRY = {}


def prop(name):
    def deco(fn):
        REGISTRY[name] = fn
        return fn
    return deco


def civil(n):
    d = datetime.date.fromordinal(n + 719163)
    return d.year, d.month, d.day


# --------------------------------------------------------------------------
# (A) model checking of the calendar walker
# --------------------------------------------------------------------------
def calwalk(v, years, invariants, tag):
    wd = vlib.workdir("%s_calwalk_%s" % (v.prop, tag))
    cfg = os.path.join(wd, "MC.cfg")
    with open(cfg, "w") as fh:
        fh.write("SPECIFICATION Spec\nCONSTANTS\n YearSet = {%s}\n" % ",".join(str(y) for y in years))
        fh.write("INVARIANTS %s\nCHECK_DEADLOCK FALSE\n" % " ".join(invariants))
    res = vlib.tlc("CalWalk.tla", cfg, workers=max(4, vlib.NCPU - 2), xmx="8g", timeout=3000)
    v.add_tlc(res, "tlc -config MC.cfg CalWalk.tla (YearSet: %d years; invariants %s)" % (len(years), " ".join(invariants)))
    if res.errors:
        raise ToolError("CalWalk: the specification violates its own invariants:\n" + "\n".join(res.errors) + res.out[-2000:])
    expect = 0
    for y in years:
        expect += 2 * ((366 if (y % 4 == 0 and (y % 100 != 0 or y % 400 == 0)) else 365))
    v.notes.append("CalWalk(%s): %d years, %d distinct states, %.0fs" % (tag, len(years), res.distinct, res.wall))
    shutil.rmtree(wd, ignore_errors=True)
    return res


CALWALK_INVS = ["ClosedFormsAgree", "EpochIsThursday", "RangeEnds", "TruncIsLastStart", "NextBIsNextStart",
                "TruncFacts", "RoundFacts", "IsoYearFacts", "TruncFailsOnlyThere"]


def calwalk_years(v):
    if v.tier == "thorough":
        return list(range(1, 10000))
    ys = set(vlib.QUICK_YEARS)
    ys.update(range(1, 10000, 41))
    return sorted(ys)


# --------------------------------------------------------------------------
# (B) walker-driven trace validation of day sweeps
# --------------------------------------------------------------------------
def daysweep(v, tag, ranges, groups, wanted, shard_records, extra=None, jobs=None):
    """Records the sweep shard by shard from the real crate and validates each
    shard with DaySweep.tla.  `wanted`: names of the checks that belong to the
    property being decided (others are decided by their own property)."""
    exe = vlib.build_harness("release")
    wd = vlib.workdir("%s_%s" % (v.prop, tag))
    shards = vlib.split_ranges(ranges, shard_records)
    cfg = os.path.join(vlib.SPEC, "DaySweep.cfg")
    total_days = vlib.count_days(ranges)
    log("[%s] daysweep %s: %d days in %d shards, groups=%s" % (v.prop, tag, total_days, len(shards), groups))

    def one(k):
        rfile = os.path.join(wd, "r%d.txt" % k)
        with open(rfile, "w") as fh:
            for a, b in shards[k]:
                fh.write("%d %d\n" % (a, b))
        tfile = os.path.join(wd, "t%d.ndjson" % k)
        args = ["daysweep", "--out", tfile, "--ranges", "@" + rfile, "--groups", groups, "--seed", str(v.seed * 1000 + k)] + (extra or [])
        vlib.vh(args)
        res = vlib.tlc("DaySweep.tla", cfg, env={"TRACE": tfile}, workers=1, xmx="3g", timeout=1800,
                       metadir=os.path.join(wd, "meta%d" % k))
        acc = res.tagged("ACCEPTED")
        if not acc or res.errors:
            raise ToolError("DaySweep shard %d of %s not accepted by TLC:\n%s" % (k, tag, res.out[-3000:]))
        mism = res.tagged("MISMATCH")
        out = []
        if mism:
            lines = open(tfile).read().splitlines()
            for mm in mism:
                pos, n, failed = mm[1], mm[2], mm[3]["#set"]
                rec = json.loads(lines[pos - 1])
                for fl in failed:
                    if len(fl) == 3:
                        j, name, i = fl
                        e = rec["tm"][j - 1]
                    else:
                        (name, i), j, e = fl, 0, None
                    if name not in wanted:
                        continue
                    y, m, d = civil(n)
                    key = {"check": name, "n": n, "y": y, "m": m, "d": d}
                    if i:
                        key["unit"] = UNITS[i - 1]
                    det = {}
                    if e is not None:
                        key["t"] = e["t"]
                        fld = {"ttr": "tr", "trd": "rd", "otr": "otr", "ord": "ord"}.get(name)
                        if fld:
                            det["observed"] = e[fld][i - 1]
                        elif name.startswith("agree"):
                            det["ts"] = [e.get("tr", [None] * 12)[i - 1], e.get("rd", [None] * 12)[i - 1]]
                            det["od"] = [e.get("otr", [None] * 12)[i - 1], e.get("ord", [None] * 12)[i - 1]]
                            det["date"] = [rec.get("tr", [None] * 12)[i - 1], rec.get("rd", [None] * 12)[i - 1]]
                        elif name in e:
                            det["observed"] = e[name]
                    else:
                        if name in ("tr", "rd"):
                            det["observed"] = rec[name][i - 1]
                        elif name in ("trmono", "rdmono"):
                            det["observed"] = rec[name[:2]][i - 1]
                        elif name in rec:
                            det["observed"] = rec[name]
                    out.append((key, det))
        sample = None
        if k == 0:
            with open(tfile) as fh:
                sample = fh.readline()[:700]
        os.remove(tfile)
        return res, acc[0], out, sample

    results = vlib.parallel(one, list(range(len(shards))), jobs=jobs)
    for res, acc, out, sample in results:
        v.add_tlc(res, "TRACE=<shard.ndjson> tlc -workers 1 -config DaySweep.cfg DaySweep.tla")
        v.cov["traces_validated_against_impl"] += 1
        v.cov["evaluations"] += acc[1]
        v.cov["distinct_nontrivial"] += acc[1]
        if sample:
            v.sample({"daysweep_record": sample})
        for key, det in out:
            v.mismatch("DaySweep:" + key["check"], key, det)
    shutil.rmtree(wd, ignore_errors=True)
    return total_days


def sweep_ranges(v, what):
    """Day windows (DESIGN section 7): quick = boundary-rich years (+ the edges of
    every year for cheap groups); thorough = every day."""
    if v.tier == "thorough" or what == "all":
        return vlib.ALL_DAYS
    # the boundary-rich years plus a dozen ordinary years drawn from the seed (defects confined to some mid-range years)
    import random
    years = sorted(set(vlib.QUICK_YEARS) | set(random.Random(v.seed * 17 + 3).sample(range(6, 9990), 12)))
    if what == "full":
        return vlib.year_ranges(years)
    return vlib.merge_ranges(vlib.year_ranges(years) + vlib.edge_ranges())


# --------------------------------------------------------------------------
# spec -> impl: TLC-generated behaviours replayed on the real crate
# --------------------------------------------------------------------------
def replay_plan(v, tag, plan, profile="release"):
    """plan: list of (op, args, expect) with expect a predicate description:
    ("eq", value) | ("in", [values]) | ("err",) | ("errk", kind) | ("okrange",)
    Executes on the crate; returns list of (op,args,result) that violate."""
    wd = vlib.workdir("%s_%s" % (v.prop, tag))
    pf = os.path.join(wd, "plan.ndjson")
    with open(pf, "w") as fh:
        for op, args, _ in plan:
            fh.write(json.dumps({"op": op, "a": args}) + "\n")
    of = os.path.join(wd, "out.ndjson")
    vlib.vh(["events", "--out", of, "--plan", pf], profile=profile)
    bad = []
    with open(of) as fh:
        for (op, args, exp), line in zip(plan, fh):
            r = json.loads(line)["r"]
            if not expect_ok(exp, r):
                bad.append((op, args, r, exp))
    v.cov["evaluations"] += len(plan)
    shutil.rmtree(wd, ignore_errors=True)
    return bad


def expect_ok(exp, r):
    k = exp[0]
    if k == "eq":
        return r == exp[1]
    if k == "in":
        return r in exp[1]
    if k == "err":
        return isinstance(r, list) and len(r) == 2 and r[0] == 1
    if k == "errk":
        return r == [1, exp[1]]
    if k == "nopanic":
        return not (isinstance(r, list) and len(r) == 2 and r[0] == 2)
    if k == "pair":       # composite result [0, [r1, r2]] with one expectation per part
        return (isinstance(r, list) and len(r) == 2 and r[0] == 0 and isinstance(r[1], list) and len(r[1]) == 2
                and expect_ok(exp[1], r[1][0]) and expect_ok(exp[2], r[1][1]))
    if k == "ordeq":      # same-type ordering <<cmp, ==, equal hashes, operators>>: hashes are only judged for equal values
        e = exp[1]
        if r == e:
            return True
        return (isinstance(r, list) and len(r) == 2 and r[0] == 0 and isinstance(r[1], list) and len(r[1]) == 4
                and e[1][1] == 0 and r[1][:2] == e[1][:2] and r[1][3] == e[1][3])
    raise ToolError("bad expectation %r" % (exp,))


# --------------------------------------------------------------------------
# (B) trace validation of independent events (EventTrace.tla over Ops.tla)
# --------------------------------------------------------------------------
def eventtrace(v, tag, plan, aspects, shard=6000, profile="release", jobs=None):
    """plan: list of (op, args).  Executes it on the real crate (harness),
    validates the recorded events with TLC; mismatches whose aspect is in
    `aspects` ("result" / "range" / "panic") belong to the property."""
    vlib.build_harness(profile)
    wd = vlib.workdir("%s_%s" % (v.prop, tag))
    # shuffle so that expensive events (big-integer clauses) spread over the shards
    import random
    plan = list(plan)
    random.Random(v.seed).shuffle(plan)
    nsh = max(1, min(len(plan) // 400, max(vlib.NCPU - 2, (len(plan) + shard - 1) // shard)))
    per = (len(plan) + nsh - 1) // nsh
    shards = [plan[i:i + per] for i in range(0, len(plan), per)]
    cfg = os.path.join(vlib.SPEC, "EventTrace.cfg")
    log("[%s] eventtrace %s: %d events in %d shards (%s)" % (v.prop, tag, len(plan), len(shards), profile))

    def one(k):
        pf = os.path.join(wd, "p%d.ndjson" % k)
        with open(pf, "w") as fh:
            for op, a in shards[k]:
                fh.write(json.dumps({"op": op, "a": a}) + "\n")
        tf = os.path.join(wd, "t%d.ndjson" % k)
        vlib.vh(["events", "--out", tf, "--plan", pf], profile=profile)
        res = vlib.tlc("EventTrace.tla", cfg, env={"TRACE": tf}, workers=1, xmx="3g", timeout=3000,
                       metadir=os.path.join(wd, "meta%d" % k))
        acc = res.tagged("ACCEPTED")
        if not acc or res.errors:
            m_ = res.out.find("Error:")
            raise ToolError("EventTrace shard %d of %s not accepted by TLC (trace kept: %s):\n%s" % (k, tag, tf, res.out[m_:m_ + 2500] if m_ >= 0 else res.out[-2500:]))
        out = []
        mism = res.tagged("MISMATCH")
        if mism:
            lines = open(tf).read().splitlines()
            for mm in mism:
                i, op, asp = mm[1], mm[2], mm[3]["#set"]
                ev = json.loads(lines[i - 1])
                want = aspects(op) if callable(aspects) else aspects
                for a_ in asp:
                    if a_ in want:
                        out.append(({"op": op, "aspect": a_, "a": shards[k][i - 1][1]}, {"observed": ev["r"]}))
        sample = None
        if k == 0:
            with open(tf) as fh:
                sample = [fh.readline().strip()[:300] for _ in range(2)]
        os.remove(tf)
        os.remove(pf)
        return res, len(shards[k]), out, sample

    results = vlib.parallel(one, list(range(len(shards))), jobs=jobs)
    distinct = len({(op, repr(a)) for op, a in plan})
    v.cov["distinct_nontrivial"] += distinct
    for res, n, out, sample in results:
        v.add_tlc(res, "TRACE=<events.ndjson> tlc -workers 1 -config EventTrace.cfg EventTrace.tla")
        v.cov["traces_validated_against_impl"] += 1
        v.cov["evaluations"] += n
        if sample:
            v.sample({"events": sample})
        for key, det in out:
            enrich_key(key)
            v.mismatch("EventTrace:" + key["op"], key, det)
    shutil.rmtree(wd, ignore_errors=True)


def enrich_key(key):
    """Adds civil fields of the first argument when it is a date-like value,
    so that known findings can be identified by input class."""
    a = key.get("a") or []
    if a:
        x = a[0]
        n = x if isinstance(x, int) else (x[0] if isinstance(x, list) and len(x) == 3 and isinstance(x[0], int) else None)
        if n is not None and -719162 <= n <= 2932896 and key["op"].split(".")[0] in ("D", "TS", "OD"):
            key["y"], key["m"], key["d"] = civil(n)
    if key["op"].endswith((".trunc", ".round")) and len(a) > 1:
        key["unit"] = UNITS[a[1] - 1]


# --------------------------------------------------------------------------
# (B) chained sessions: the library as a register machine (SessionTrace.tla)
# --------------------------------------------------------------------------
RES_TYPE = {}


def res_type(op):
    """register type an operation's Ok result is stored into (mirror of Ops.ResType; only used to drive sessions)"""
    if not RES_TYPE:
        groups = {
            "D": ["D.try_from_ymd", "D.try_from_days", "D.add_days", "D.sub_days", "D.last_day_of_month", "D.trunc", "D.round"],
            "TS": ["D.and_hms", "D.and_time", "D.add_time", "D.to_ts", "D.add_interval_ym", "D.sub_interval_ym", "D.add_interval_dt",
                   "D.sub_interval_dt", "D.sub_time", "TS.new", "TS.try_from_usecs", "TS.add_interval_dt", "TS.sub_interval_dt",
                   "TS.add_time", "TS.sub_time", "TS.add_interval_ym", "TS.sub_interval_ym", "TS.add_days", "TS.sub_days",
                   "TS.last_day_of_month", "TS.trunc", "TS.round", "OD.to_ts", "OD.add_time", "OD.sub_time"],
            "T": ["T.try_from_hms", "T.try_from_usecs", "T.add_interval_dt", "T.sub_interval_dt", "T.from_ts", "T.from_od",
                  "T.from_dt", "OD.to_time"],
            "YM": ["YM.try_from_ym", "YM.try_from_months", "YM.add_interval_ym", "YM.sub_interval_ym", "YM.neg", "YM.mul_f64", "YM.div_f64"],
            "DT": ["D.sub_timestamp", "T.sub_time", "T.mul_f64", "T.div_f64", "TS.sub_date", "TS.sub_timestamp", "TS.oracle_sub_date",
                   "DT.try_from_dhms", "DT.try_from_usecs", "DT.add_interval_dt", "DT.sub_interval_dt", "DT.sub_time", "DT.neg",
                   "DT.from_time", "DT.mul_f64", "DT.div_f64", "OD.sub_timestamp"],
            "OD": ["TS.oracle_add_days", "TS.oracle_sub_days", "OD.new", "OD.try_from_usecs", "OD.from_ts", "OD.add_interval_dt",
                   "OD.sub_interval_dt", "OD.add_interval_ym", "OD.sub_interval_ym", "OD.add_days", "OD.sub_days",
                   "OD.last_day_of_month", "OD.trunc", "OD.round"],
        }
        for ty, ops in groups.items():
            for o in ops:
                RES_TYPE[o] = ty
    return RES_TYPE.get(op, "-")


def storable(ty, val):
    """structural sanity of a value before it is fed back into the crate (the harness refuses invalid arguments)"""
    try:
        if ty == "D":
            return -719162 <= val <= 2932896
        if ty == "YM":
            return abs(val) <= 2136000000
        if ty == "T":
            return 0 <= val[0] < 86400 and 0 <= val[1] < 1000000
        if ty in ("TS", "OD"):
            return -719162 <= val[0] <= 2932896 and 0 <= val[1] < 86400 and 0 <= val[2] < 1000000 and (ty == "TS" or val[2] == 0)
        if ty == "DT":
            return (abs(val[0]) < 100000000 or val == [100000000, 0, 0] or val == [-100000000, 0, 0]) and 0 <= val[1] < 86400 and 0 <= val[2] < 1000000
    except Exception:
        return False
    return False


def sessions(v, tag, nsessions, steps, aspects):
    """Drives random chained sessions on the real crate (values flow from call to
    call through six registers) and validates each recorded session with
    SessionTrace.tla."""
    import pools
    import random
    import subprocess
    exe = vlib.build_harness("release")
    wd = vlib.workdir("%s_%s" % (v.prop, tag))
    cfg = os.path.join(vlib.SPEC, "SessionTrace.cfg")
    ops = [o for o in pools.SIG if not o.startswith("AG.") and not o.endswith("_at")]
    regtypes = ("D", "T", "TS", "YM", "DT", "OD")
    log("[%s] sessions %s: %d sessions x %d steps" % (v.prop, tag, nsessions, steps))

    def one(k):
        rnd = random.Random(v.seed * 1000 + k)
        P = pools.Pools(v.seed * 1000 + k, 1)
        regs = {"D": rnd.choice(P.dates), "T": rnd.choice(P.times), "TS": rnd.choice(P.ts), "YM": rnd.choice(P.ym),
                "DT": rnd.choice(P.dt), "OD": rnd.choice(P.od)}
        tf = os.path.join(wd, "s%d.ndjson" % k)
        proc = subprocess.Popen([exe, "exec"], stdin=subprocess.PIPE, stdout=subprocess.PIPE, text=True, bufsize=1)
        with open(tf, "w") as fh:
            fh.write(json.dumps({"i": 1, "op": "S.init", "a": [regs[t] for t in regtypes], "r": [0, 0], "use": [], "tys": [], "put": "-"}) + "\n")
            for i in range(2, steps + 2):
                op = rnd.choice(ops)
                tys = pools.SIG[op]
                a, use = [], []
                for pos, t in enumerate(tys):
                    if t in regs and rnd.random() < 0.8:
                        a.append(regs[t])
                        use.append(pos + 1)
                    else:
                        a.append(rnd.choice(P.pool(t)))
                proc.stdin.write(json.dumps({"op": op, "a": a}) + "\n")
                proc.stdin.flush()
                line = proc.stdout.readline()
                if not line:
                    raise ToolError("harness died in session %d at %s %r" % (k, op, a))
                ev = json.loads(line)
                put = res_type(op)
                if not (ev["r"][0] == 0 and put in regs and storable(put, ev["r"][1])):
                    put = "-"        # an out-of-range value is judged at its event (ValueInRangeX) but never fed back
                else:
                    regs[put] = ev["r"][1]
                fh.write(json.dumps({"i": i, "op": op, "a": ev["a"], "r": ev["r"], "use": use, "tys": tys, "put": put}) + "\n")
        proc.stdin.close()
        proc.wait()
        res = vlib.tlc("SessionTrace.tla", cfg, env={"TRACE": tf}, workers=1, xmx="3g", timeout=3000, metadir=os.path.join(wd, "m%d" % k))
        acc = res.tagged("ACCEPTED")
        if not acc or res.errors:
            m_ = res.out.find("Error:")
            raise ToolError("SessionTrace session %d not accepted by TLC (trace kept: %s):\n%s" % (k, tf, res.out[m_:m_ + 2500] if m_ >= 0 else res.out[-2500:]))
        out = []
        mism = res.tagged("MISMATCH")
        if mism:
            lines = open(tf).read().splitlines()
            for mm in mism:
                i, op, bad = mm[1], mm[2], mm[3]["#set"]
                ev = json.loads(lines[i - 1])
                for b in bad:
                    if b in aspects:
                        out.append(({"op": op, "aspect": b, "a": ev["a"], "session": k, "step": i}, {"observed": ev["r"]}))
        sample = None
        if k == 0:
            with open(tf) as fh:
                sample = [fh.readline().strip()[:200] for _ in range(3)]
        os.remove(tf)
        return res, steps + 1, out, sample

    for res, n, out, sample in vlib.parallel(one, list(range(nsessions))):
        v.add_tlc(res, "TRACE=<session.ndjson> tlc -workers 1 -config SessionTrace.cfg SessionTrace.tla")
        v.cov["traces_validated_against_impl"] += 1
        v.cov["evaluations"] += n
        v.cov["distinct_nontrivial"] += n - 1
        if sample:
            v.sample({"session": sample})
        for key, det in out:
            enrich_key(key)
            v.mismatch("SessionTrace:" + key["op"], key, det)
    shutil.rmtree(wd, ignore_errors=True)


# ==========================================================================
# C01
# ==========================================================================
@prop("C01")
def c01(v):
    v.cov["rule"] = ("(A) CalWalk.tla: the day-successor relation walked forward and backward, every closed form of "
                     "Cal/Units compared with it in every state; (B) DaySweep.tla validates one record per day number "
                     "recorded from the crate (extract, try_from_ymd, try_from_days, is_valid, day_of_week, accessors, "
                     "order/eq/hash vs previous day); TripleGen.tla generates (y,m,d) triples / raw day numbers with the "
                     "demanded verdict which are replayed on the crate. distinct_nontrivial = distinct day numbers + "
                     "distinct triples judged.")
    calwalk(v, calwalk_years(v), CALWALK_INVS, "c01")
    wanted = {"ymd", "rt", "fd", "valid", "dow", "acc", "ordp", "eq", "ldm"}
    daysweep(v, "cal", sweep_ranges(v, "edges"), "cal", wanted, 40000)
    # spec -> impl: triples
    if v.tier == "thorough":
        years = list(range(-1, 10002))
    else:
        years = sorted(set(vlib.QUICK_YEARS + [-1, 0, 10000, 10001] + list(range(7, 10000, 97))))
    years += [-2147483647, 2147483647, -32768, 32768, 65536]
    raw = sorted(set([-719162 + k for k in range(-3, 4)] + [2932896 + k for k in range(-3, 4)] +
                     [0, -1, 1, -2147483647, 2147483647, -719163 - 365, 2932897 + 366, 1000000000, -1000000000]))
    wd = vlib.workdir("C01_triplegen")
    # split the years over several TLC runs (PrintT output is the bottleneck)
    chunks = [years[i::8] for i in range(8)]

    def gen(k):
        cfg = os.path.join(wd, "g%d.cfg" % k)
        mod = vlib.mc_module(wd, "MCTripleGen%d" % k, "TripleGen", {
            "MCYears": "{%s}" % ",".join(map(str, chunks[k])),
            "MCRaw": "{%s}" % ",".join(map(str, raw if k == 0 else raw[:1]))})
        with open(cfg, "w") as fh:
            fh.write("SPECIFICATION Spec\nCONSTANTS\n Years <- MCYears\n RawDays <- MCRaw\nINVARIANTS VerdictIsReal Emit\nCHECK_DEADLOCK FALSE\n")
        res = vlib.tlc(mod, cfg, workers=1, xmx="2g", timeout=1800, metadir=os.path.join(wd, "m%d" % k), cwd=wd)
        if res.errors:
            raise ToolError("TripleGen: spec invariant violated:\n" + "\n".join(res.errors) + res.out[-1500:])
        return res
    plan = []
    seen = set()
    for res in vlib.parallel(gen, list(range(8))):
        v.add_tlc(res, "tlc -config gen.cfg TripleGen.tla")
        for g in res.tagged("GEN"):
            if g[1] == "ymd":
                _, _, y, m, d, verdict, n, kinds = g
                if (y, m, d) in seen:
                    continue
                seen.add((y, m, d))
                # a triple wrong in two ways matches two error kinds; the property does not rank them
                plan.append(("D.try_from_ymd", [y, m, d], ("eq", [0, n]) if verdict == 0 else ("in", [[1, k] for k in kinds if k])))
                plan.append(("D.is_valid", [y, m, d], ("eq", [0, 1 if verdict == 0 else 0])))
            else:
                _, _, n, verdict = g
                if ("day", n) in seen:
                    continue
                seen.add(("day", n))
                plan.append(("D.try_from_days", [n], ("eq", [0, n]) if verdict == 0 else ("errk", verdict)))
    shutil.rmtree(wd, ignore_errors=True)
    # month/day arguments beyond the grid (u32 extremes) - verdict from the same rule: month / day error
    bad = replay_plan(v, "triples", plan)
    extreme = [p for p in plan if p[0] == "D.try_from_days" or abs(p[1][0]) > 20000]
    bad += replay_plan(v, "triples_dev", extreme, profile="dev")       # overflow checks on: extremes must still be errors
    v.cov["distinct_nontrivial"] += len(plan)
    v.cov["traces_validated_against_impl"] += 1
    v.sample({"generated_behaviours": [list(p[:2]) + [list(p[2])] for p in plan[:3]]})
    for op, args, r, exp in bad:
        v.mismatch("TripleGen:" + op, {"check": op, "args": args}, {"observed": r, "expected": list(exp)})
    # the same verdicts through the TEXT constructors of the three date-bearing types: last day of every month and that day + 1
    gens = spellgen(v, "monthends", month_end_cases(), chunks=6)
    replay_spellings(v, "monthends", gens, lambda var, exp, loss, ty, pic: var == 1 or 1 <= var - (N_STYLES + MAX_CUT) <= 6)     # canonical text; month 0/13/12, day 0/32/last+1
    v.cov["exhaustive"] = v.tier == "thorough"


# ==========================================================================
# C10 / C11 / C17
# ==========================================================================
TR_GROUPS = "dtr,ttr,otr"


@prop("C10")
def c10(v):
    v.cov["rule"] = ("(A) CalWalk.tla: forward walker remembers the last unit start seen (declarative IsStart per unit); "
                     "TLC checks closed-form TruncDay = that, idempotent, never forward, fails only for the Sunday week of "
                     "0001-01-01..06. (B) DaySweep.tla: per day the 12 trunc_* results on Date, on Timestamp and OracleDate "
                     "at critical + random times of day, judged against the walker frame, monotone vs previous day. "
                     "distinct_nontrivial = distinct day numbers judged (each with 12 units x 3 types x times).")
    calwalk(v, calwalk_years(v), ["ClosedFormsAgree", "TruncIsLastStart", "TruncFacts", "IsoYearFacts", "TruncFailsOnlyThere"], "c10")
    daysweep(v, "trunc", sweep_ranges(v, "full"), TR_GROUPS, {"tr", "ttr", "otr", "trmono"}, 2500, extra=["--ntimes", "3"])
    if v.tier == "quick":
        daysweep(v, "trunc_edges", vlib.edge_ranges(), "dtr", {"tr", "trmono"}, 30000)
    v.cov["exhaustive"] = v.tier == "thorough"


@prop("C11")
def c11(v):
    v.cov["rule"] = ("(A) CalWalk.tla: backward walker gives the next unit start; TLC checks RoundDays subset of "
                     "{TruncDay, NextBDay}, boundary unchanged, on every day. (B) DaySweep.tla: the 12 round_* results on "
                     "Date/Timestamp/OracleDate per day at critical times (around 12:00, :30, :30) and random times, judged "
                     "against the documented midpoint rule; monotone vs previous day except ISO year. "
                     "distinct_nontrivial = distinct day numbers judged.")
    calwalk(v, calwalk_years(v), ["ClosedFormsAgree", "NextBIsNextStart", "RoundFacts", "IsoYearFacts"], "c11")
    daysweep(v, "round", sweep_ranges(v, "full"), TR_GROUPS, {"rd", "trd", "ord", "rdmono"}, 2500, extra=["--ntimes", "3"])
    if v.tier == "quick":
        daysweep(v, "round_edges", vlib.edge_ranges(), "dtr", {"rd", "rdmono"}, 30000)
    v.cov["exhaustive"] = v.tier == "thorough"


# --------------------------------------------------------------------------
# (A) laws of the specification's own operators (SpecLaws.tla)
# --------------------------------------------------------------------------
def speclaws(v, invariants):
    import pools
    P = pools.Pools(v.seed, scale_of(v))
    wd = vlib.workdir("%s_speclaws" % v.prop)
    ts = [x for x in P.ts if -719162 <= x[0] <= 2932896][:70]
    months = sorted(set(list(range(-40, 41)) + [12, 24, -12, 1200, -1200, 119987, -119987, 119988, pools.YM_MAX, -pools.YM_MAX]))
    small = sorted(set([0, 1, 2, 3, 7, 9999, 10000, 10001, 12345, 40000, 65535, 65536, 86400, 99999999, 100000000, 123456789,
                        1999999999, 2000000000, 8191, 8192, 8193] + [P.rnd.randint(0, 2 * 10**9) for _ in range(8)]))
    mod = vlib.mc_module(wd, "MCSpecLaws", "SpecLaws", {
        "MCTs": "{" + ",".join(tla_val(x) for x in ts) + "}",
        "MCDt": "{" + ",".join(tla_val(x) for x in P.dt) + "}",
        "MCTime": "{" + ",".join(tla_val(x) for x in P.times) + "}",
        "MCYm": "{" + ",".join(tla_val(x) for x in P.ym) + "}",
        "MCDate": "{" + ",".join(tla_val(x) for x in P.dates) + "}",
        "MCMonths": "{" + ",".join(tla_val(x) for x in months) + "}",
        "MCSmall": "{" + ",".join(tla_val(x) for x in small) + "}"})
    cfg = os.path.join(wd, "MC.cfg")
    with open(cfg, "w") as fh:
        fh.write("SPECIFICATION Spec\nCONSTANTS TsPool <- MCTs\n DtPool <- MCDt\n TimePool <- MCTime\n YmPool <- MCYm\n DatePool <- MCDate\n"
                 " MonthOffsets <- MCMonths\n SmallInts <- MCSmall\nINVARIANTS %s\nCHECK_DEADLOCK FALSE\n" % " ".join(invariants))
    res = vlib.tlc(mod, cfg, workers=4, xmx="4g", timeout=1800, cwd=wd)
    if res.errors:
        m_ = res.out.find("Error:")
        raise ToolError("SpecLaws: the specification violates a law it should have:\n" + res.out[m_:m_ + 2500])
    v.add_tlc(res, "tlc -config MC.cfg MCSpecLaws.tla (SpecLaws: %s)" % " ".join(invariants))
    v.notes.append("SpecLaws %s: %d states" % (" ".join(invariants), res.distinct))
    shutil.rmtree(wd, ignore_errors=True)


APALACHE_LAWS = {
    "Law": ("Laws.tla", "the carry laws of Val.tla (x+i-i=x, x+i-x=i, negation, time-of-day wrap and back) hold for all normal-form "
                        "(instant, interval) pairs"),
    "Law2": ("Laws2.tla", "MRCmp = sign of the exact difference / antisymmetric / translation invariant, sign-magnitude split, month-index "
                          "arithmetic and its inverse, seconds <-> (h,m,s), month count = sign x (years x 12 + months), whole-second floor "
                          "hold for all values"),
}


def apalache_laws(v, inv="Law"):
    """Unbounded (no bit width) check of arithmetic laws of the specification with Apalache: spec/apalache/Laws*.tla
    (typed literal copies of the operators of Val.tla / Ops.tla)."""
    mod, what = APALACHE_LAWS[inv]
    wd = vlib.workdir("%s_apalache_%s" % (v.prop, inv))
    out, dt = vlib.run(["timeout", "900", "apalache-mc", "check", "--length=0", "--inv=" + inv, "--out-dir=" + wd,
                        os.path.join(vlib.SPEC, "apalache", mod)], cwd=wd, check=False)
    if "EXITCODE: OK" not in out or "The outcome is: NoError" not in out:
        raise ToolError("Apalache does not confirm %s of spec/apalache/%s:\n%s" % (inv, mod, out[-2000:]))
    v.notes.append("Apalache: %s invariant %s - %s, over unbounded integers (%.0fs)" % (mod, inv, what, dt))
    if len(v.cov["checker_cmd"]) < 8:
        v.cov["checker_cmd"].append("apalache-mc check --length=0 --inv=%s spec/apalache/%s" % (inv, mod))
    shutil.rmtree(wd, ignore_errors=True)


# ==========================================================================
# pools-based properties
# ==========================================================================
def scale_of(v):
    return 1 if v.tier == "quick" else 4


def multi_plan(v, ops, scale, cap, heavy_cap=1200, rounds=6):
    """pools.plan_for over the check's seed (quick) or over `rounds` derived seeds (thorough: new random pool members
    and new random operand tuples each round; the boundary values are in every round and de-duplicated)."""
    import pools
    seen, plan = set(), []
    for k in range(1 if v.tier == "quick" else rounds):
        P = pools.Pools(v.seed + 7919 * k, scale)
        for op, a in pools.plan_for(ops, P, cap=cap, heavy_cap=heavy_cap):
            key = op + repr(a)
            if key not in seen:
                seen.add(key)
                plan.append((op, a))
    return plan


LINEAR_OPS = ["D.add_days", "D.sub_days", "D.sub_date", "D.add_interval_dt", "D.sub_interval_dt", "D.add_time", "D.sub_time",
              "D.sub_timestamp", "D.and_time", "D.to_ts",
              "TS.add_interval_dt", "TS.sub_interval_dt", "TS.add_time", "TS.sub_time", "TS.add_days", "TS.sub_days",
              "TS.sub_date", "TS.sub_timestamp", "TS.oracle_sub_date",
              "YM.add_interval_ym", "YM.sub_interval_ym", "DT.add_interval_dt", "DT.sub_interval_dt", "DT.sub_time",
              "OD.add_interval_dt", "OD.sub_interval_dt", "OD.add_time", "OD.sub_time", "OD.sub_date", "OD.sub_timestamp"]


@prop("C02")
def c02(v):
    import pools
    v.cov["rule"] = ("every safe public operation of Ops.tla x operand tuples from per-type boundary pools (range ends +-1, epoch, "
                     "month/year/century ends, leap days, noon/midnight +-1us, interval limits +-1, i32/u32/i64/f64 extremes) and "
                     "seeded random values; every recorded event is judged by EventTrace.tla; the C02 aspect is "
                     "ValueInRange(op, r): a returned value lies in its type's range. distinct_nontrivial = distinct (op, args).")
    P = pools.Pools(v.seed, scale_of(v))
    plan = pools.plan_for(sorted(pools.SIG), P, cap=1200 * scale_of(v))
    eventtrace(v, "pools", plan, {"range"})
    # parsing: numeric fields filled with arbitrary digit strings (in and out of every field's domain), under clocks
    # incl. year 9999; also through serde_json - whatever parses must be in range
    import random
    rnd = random.Random(v.seed + 2)
    fuzz = []
    pics = {"D": DATE_PICS_FULL + DATE_PICS_PART, "T": TIME_PICS, "TS": TS_PICS, "OD": OD_PICS, "YM": YM_PICS, "DT": DT_PICS}
    widths = {"YYYY": 4, "YYY": 3, "YY": 2, "Y": 1, "MM": 2, "DD": 2, "DDD": 3, "HH24": 2, "HH12": 2, "HH": 2, "MI": 2, "SS": 2,
              "FF": 9, "D": 1}
    import re as _re
    tokre = _re.compile(r"YYYY|YYY|YY|Y|MONTH|MON|MM|MI|DDD|DD|DAY|DY|D|HH24|HH12|HH|SS|FF[1-9]?|A\.M\.|P\.M\.|AM|PM|.", _re.I)
    for ty, plist in pics.items():
        for pic in plist:
            for _ in range(60 * scale_of(v)):
                out = []
                for tk in tokre.findall(pic):
                    u = tk.upper()
                    if u.startswith("FF"):
                        out.append("".join(rnd.choice("0599") for _ in range(rnd.randint(0, 9))))
                    elif u in widths:
                        w = widths[u] if ty not in ("YM", "DT") or u not in ("YYYY", "YYY", "YY", "Y", "DD") else 9
                        mode = rnd.random()
                        if mode < 0.4:
                            out.append("".join(rnd.choice("0123456789") for _ in range(rnd.randint(1, w))))
                        elif mode < 0.7:
                            out.append(rnd.choice(["0", "1", "9" * w, "12", "23", "24", "31", "59", "60", "99", "366", "9999", "100000000",
                                                   "178000000", "177999999", "99999999"])[:w + 1])
                        else:
                            out.append(rnd.choice(["-", "+", ""]) + "".join(rnd.choice("0123456789") for _ in range(w)))
                    elif u in ("MONTH", "MON"):
                        out.append(rnd.choice(["Jan", "february", "DEC", "Foo", "may"]))
                    elif u in ("DAY", "DY"):
                        out.append(rnd.choice(["Mon", "sunday", "SAT", "Thursday", "xx"]))
                    elif u in ("AM", "PM", "A.M.", "P.M."):
                        out.append(rnd.choice(["AM", "pm", "A.M.", "p.m.", ""]))
                    else:
                        out.append(tk)
                text = "".join(out)
                clk = rnd.choice(CLOCKS + [[9999, 12, 31, 23, 59, 59, 999999], [9990, 1, 1, 0, 0, 0, 0]])
                fuzz.append((ty + ".parse_at", [clk, list(text), list(pic)]))
    for ty in FIXED_PICS:
        for x in {"D": P.dates, "T": P.times, "TS": P.ts, "OD": P.od, "YM": P.ym, "DT": P.dt}[ty][:20]:
            fuzz.append((ty + ".unbin", [x if ty != "T" else [0, x[0], x[1]]]))
    sg = spellgen(v, "texts", spell_cases(v)[::2], chunks=10)       # lenient spellings and perturbations incl. range-end overflows
    for g in sg:
        fuzz.append((g[3] + ".parse_at", [g[6], g[5], g[4]]))
    eventtrace(v, "parsefuzz", fuzz, {"range"}, shard=4000)
    # chained sessions: values produced by one call flow into the next; TypeOK after every step
    sessions(v, "chain", 14 if v.tier == "quick" else 56, 2500 if v.tier == "quick" else 10000, {"range", "binding"})


@prop("C08")
def c08(v):
    import pools
    v.cov["rule"] = ("linear operations (add/sub days, times, day-time intervals, differences, fractional days) x operand pairs from "
                     "boundary pools (range ends, +-1 unit, one unit past the range, epoch, i32 extremes, dyadic/decimal day "
                     "fractions) and seeded random values; judged by Ops.tla's exact mixed-radix arithmetic (succeeds iff the exact "
                     "result is in range; fractional days = nearest microsecond via big integers).")
    speclaws(v, ["LinearLaws", "IntervalLaws"])
    apalache_laws(v)
    plan = multi_plan(v, LINEAR_OPS, scale_of(v) * 2, 4000 * scale_of(v))
    eventtrace(v, "linear", plan, {"result", "range", "panic"})


DT_BOUNDARY = None


def dt_boundary(P):
    import pools
    day = 86400 * 10**6
    mx = pools.DT_MAX_D * day
    xs = [0, 1, -1, day - 1, -(day - 1), day, -day, day + 1, -(day + 1), 7 * day, -7 * day, mx, -mx, mx - 1, -(mx - 1),
          12 * 3600 * 10**6, -12 * 3600 * 10**6, 10**6, -10**6, 2 * day - 1, -(2 * day - 1)]
    xs += [P.rnd.randint(-mx, mx) for _ in range(3)] + [P.rnd.randint(-3 * day, 3 * day) for _ in range(3)]
    return [pools.us3(x) for x in xs]


@prop("C12")
def c12(v):
    import pools
    v.cov["rule"] = ("seconds of the day (quick: every 7th + all hh:59:59, thorough: all 86,400) x boundary intervals (0, +-1us, "
                     "+-(1d-1us), +-1d, whole days, range limits, random) through Time +/- IntervalDT, judged by Ops.tla "
                     "(mixed-radix sum with the day digit dropped = modulo 24h); Time - Time, Interval -> Time, Time vs "
                     "Interval comparisons over pools. distinct_nontrivial = distinct (op, args).")
    speclaws(v, ["WrapLaws"])
    apalache_laws(v)
    P = pools.Pools(v.seed, scale_of(v))
    ivs = dt_boundary(P)
    step = 7 if v.tier == "quick" else 1
    secs = sorted(set(list(range(0, 86400, step)) + [h * 3600 + 3599 for h in range(24)] + [h * 3600 for h in range(24)]))
    usl = [0, 1, 499999, 500000, 999999]
    plan = []
    for k, s_ in enumerate(secs):
        t = [s_, usl[k % 5]]
        for j, iv in enumerate(ivs):
            plan.append(("T.add_interval_dt" if (k + j) % 2 == 0 else "T.sub_interval_dt", [t, iv]))
        if v.tier == "thorough":
            for j, iv in enumerate(ivs):
                plan.append(("T.sub_interval_dt" if (k + j) % 2 == 0 else "T.add_interval_dt", [t, iv]))
    plan += pools.plan_for(["T.add_interval_dt", "T.sub_interval_dt", "T.sub_time", "T.from_dt", "DT.from_time", "T.ord_dt",
                            "DT.ord_t", "DT.sub_time", "T.usecs", "T.try_from_usecs"], P, cap=3000)
    eventtrace(v, "time", plan, {"result", "range", "panic"}, shard=30000)


@prop("C13")
def c13(v):
    import pools
    v.cov["rule"] = ("year-month intervals k over windows (quick: +-20000, the limits +-2000, stride 99991; thorough: +-2000000, "
                     "limits +-200000, stride 997): try_from_months, extract, try_from_ym(fields), is_valid_ym, negation, signed "
                     "accessors, order vs k-1; day-time intervals at powers of ten, unit boundaries +-1us, seconds within +-2 days, "
                     "limits, random: try_from_usecs, extract, try_from_dhms(fields), negation, accessors, order; constructor "
                     "validity grids incl. u32 extremes. All judged by Ops.tla (sign-magnitude decomposition in mixed radix).")
    speclaws(v, ["YmLaws", "IntervalLaws"])
    P = pools.Pools(v.seed, scale_of(v))
    YM = pools.YM_MAX
    if v.tier == "quick":
        ks = set(range(-20000, 20001)) | set(range(YM - 2000, YM + 1)) | set(range(-YM, -YM + 2001)) | set(range(-YM, YM + 1, 99991))
    else:
        ks = set(range(-2000000, 2000001)) | set(range(YM - 200000, YM + 1)) | set(range(-YM, -YM + 200001)) | set(range(-YM, YM + 1, 997))
    plan = []
    for k in sorted(ks):
        y, m = abs(k) // 12, abs(k) % 12
        plan.append(("YM.extract", [k]))
        plan.append(("YM.try_from_ym", [y, m]))
        plan.append(("YM.neg", [k]))
        plan.append(("YM.acc", [k]))
        if k > -YM:
            plan.append(("YM.ord", [k, k - 1]))
        if k % 5 == 0:
            plan.append(("YM.try_from_months", [k]))
            plan.append(("YM.is_valid_ym", [y, m]))
    for k in [YM + 1, -YM - 1, YM + 12, pools.I32_MAX, pools.I32_MIN, -YM - 13]:
        plan.append(("YM.try_from_months", [k]))
    # day-time intervals
    day = 86400 * 10**6
    mx = pools.DT_MAX_D * day
    xs = set()
    for p in range(0, 19):
        for d_ in (-1, 0, 1):
            xs.add(10**p + d_)
            xs.add(-(10**p) + d_)
    for unit in (10**6, 60 * 10**6, 3600 * 10**6, day, 7 * day, 365 * day, mx):
        for mlt in (1, 2, 23, 24, 59, 60):
            for d_ in (-1, 0, 1):
                x = unit * mlt + d_
                if abs(x) <= mx:
                    xs.add(x)
                    xs.add(-x)
    stepS = 17 if v.tier == "quick" else 1
    for s_ in range(-2 * 86400, 2 * 86400 + 1, stepS):
        xs.add(s_ * 10**6 + (s_ % 3) * 499999)
    xs |= {mx, -mx, mx - 1, -mx + 1}
    xs |= {P.rnd.randint(-mx, mx) for _ in range(2000 * scale_of(v))}
    # every order of magnitude (log-uniform) and every binary band of every clock unit
    xs |= {int(10 ** P.rnd.uniform(0, 18.93)) * P.rnd.choice((1, -1)) for _ in range(3000 * scale_of(v))}
    xs |= {x for x in pools.binary_bands(P.rnd, mx)}
    xs = {x for x in xs if abs(x) <= mx}
    for x in sorted(xs):
        a = pools.us3(x)
        ax = abs(x)
        d_, r = divmod(ax, day)
        h, r = divmod(r, 3600 * 10**6)
        mi, r = divmod(r, 60 * 10**6)
        sc, us = divmod(r, 10**6)
        plan.append(("DT.extract", [a]))
        plan.append(("DT.try_from_dhms", [d_, h, mi, sc, us]))
        plan.append(("DT.neg", [a]))
        plan.append(("DT.acc", [a]))
        plan.append(("DT.try_from_usecs", [a]))
        if x > -mx:
            plan.append(("DT.ord", [a, pools.us3(x - 1)]))
    # constructor grids around the symmetric range limits
    for d_ in (0, 1, 99999999, 100000000, 100000001, pools.U32_MAX):
        for h in (0, 1, 23, 24):
            for mi in (0, 1, 59, 60):
                for sc in (0, 1, 59, 60):
                    for us in (0, 1, 999999, 1000000):
                        plan.append(("DT.try_from_dhms", [d_, h, mi, sc, us]))
                        plan.append(("DT.is_valid", [d_, h, mi, sc, us]))
    for y in (0, 1, 177999999, 178000000, 178000001, 2147483647, 2147483648, pools.U32_MAX):
        for m in (0, 1, 11, 12, 13, pools.U32_MAX):
            plan.append(("YM.try_from_ym", [y, m]))
            plan.append(("YM.is_valid_ym", [y, m]))
    plan += pools.plan_for(["YM.try_from_ym", "YM.is_valid_ym", "DT.try_from_dhms", "DT.is_valid", "DT.try_from_usecs",
                            "YM.try_from_months", "YM.ord", "DT.ord", "YM.months", "DT.usecs"], P, cap=4000)
    eventtrace(v, "intervals", plan, {"result", "range", "panic"}, shard=40000)


@prop("C14")
def c14(v):
    import pools
    v.cov["rule"] = ("IntervalYM / IntervalDT / Time x multipliers and divisors (integers, dyadic and decimal fractions, tiny, huge, "
                     "signed zeros, infinities, NaN), both signs of both operands; Ops.tla/Scale.tla decode the double exactly "
                     "(mantissa, exponent) and judge the result with big-integer arithmetic: within relative 2^-51 of the real "
                     "product/quotient then truncated toward zero, exact when the real value is an integer below 2^53, error kind by "
                     "class (NaN / infinite / divide-by-zero / out of range).")
    speclaws(v, ["BigLaws"])
    plan = multi_plan(v, ["YM.mul_f64", "YM.div_f64", "DT.mul_f64", "DT.div_f64", "T.mul_f64", "T.div_f64"], scale_of(v),
                      100000, heavy_cap=2600 * scale_of(v), rounds=5)
    # products / quotients whose real value lies less than one whole month beyond (or below) the interval limit:
    # truncation comes first, the range is judged on the truncated count
    for x in (1, 5, 7, 12, 1000, 119988, 2135999991, pools.YM_MAX):
        for fpart in (0.25, 0.5, 0.9, -0.5, -1.5, 1.25):
            k_ = (pools.YM_MAX + fpart) / x
            for sx, sk in ((1, 1), (-1, 1), (1, -1), (-1, -1)):
                plan.append(("YM.mul_f64", [sx * x, pools.fspec(sk * k_)]))
                plan.append(("YM.div_f64", [sx * x, pools.fspec(sk / k_)]))
    # quotients / products that lie just below (or above) a whole number of microseconds with a LARGE divisor:
    # x = n*k -+ 1 us divided by k (and multiplied by 1/k): truncation toward zero, no snapping to the nearest integer
    for k_ in (10.0**10, 2.0**34, 2.0**36, 86400e6, 2e10, 3.0 * 2**33, 1e12):
        for n_ in (1, 2, 3, 5, 7, 1000):
            for d_ in (-1, 1):
                x = int(n_ * k_) + d_
                if x < 86400 * 10**6 * 100000000:
                    for sx, sk in ((1, 1), (-1, 1), (1, -1)):
                        plan.append(("DT.div_f64", [pools.us3(sx * x), pools.fspec(sk * k_)]))
                        plan.append(("DT.mul_f64", [pools.us3(sx * x), pools.fspec(sk / k_)]))
                if x < 86400 * 10**6:
                    plan.append(("T.div_f64", [[x // 10**6, x % 10**6], pools.fspec(k_)]))
    eventtrace(v, "scale", plan, {"result", "range", "panic"}, shard=1200)


@prop("C16")
def c16(v):
    import pools
    v.cov["rule"] = ("(B1) DaySweep.tla: every day x critical/random times x sub-second parts: OracleDate::from(Timestamp) floors, "
                     "new, try_from_usecs accepts only whole seconds; (B2) every OracleDate operation x boundary/random operands "
                     "judged by Ops.tla: value whole-second and in range (ValueInRange), interval add = timestamp result floored, "
                     "fractional days = nearest second, differences exact.")
    daysweep(v, "odx", sweep_ranges(v, "full"), "odx", {"of", "on", "ou", "oext"}, 12000, extra=["--ntimes", "4", "--nrand", "2"])
    P = pools.Pools(v.seed, scale_of(v) * 2)
    ops = [o for o in pools.SIG if o.startswith("OD.")] + ["TS.oracle_add_days", "TS.oracle_sub_days", "TS.oracle_sub_date",
                                                            "T.from_od", "D.ord_od", "TS.ord_od"]
    plan = pools.plan_for(ops, P, cap=2500 * scale_of(v))
    # large non-integer day offsets on mid-range dates: the sum stays in range, so the nearest-second clause is judged
    big = [100000 + 3 / 1024, 65536.1, 200000.7, 1234567.891, 333333.3333, 150000.123, 70000.5000001, 99999.99999, 500000.25001,
           2500000.6, 12345.678, 86400.000011574, 400000.1 / 3, 999999.4999994213] + [P.rnd.uniform(60000, 2000000) for _ in range(16)]
    mids = [[vlib.dayno(y, 1 + (y % 12), 1 + (y % 28)), (y * 7919) % 86400, 0] for y in (1, 150, 900, 1500, 1700, 1900, 1969, 1970, 2000, 2024,
                                                                                           2300, 3000, 4200, 5000, 6000, 7000, 8000, 9000)]
    for x in mids:
        for off in big:
            for sg in (1, -1):
                plan.append(("OD.add_days", [x, pools.fspec(sg * off)]))
                plan.append(("TS.oracle_sub_days", [[x[0], x[1], 400000], pools.fspec(sg * off)]))
    # which boundary truncation / rounding picks is C10/C11's business; C16 only demands a whole-second in-range value
    eventtrace(v, "oracle", plan, lambda op: {"range", "panic"} if op in ("OD.trunc", "OD.round") else {"result", "range", "panic"})


def month_edge_days(v):
    """days whose day-of-month matters for month arithmetic: 1, 15, 28..31"""
    import calendar
    years = vlib.QUICK_YEARS if v.tier == "quick" else range(1, 10000)
    out = []
    for y in years:
        for m in range(1, 13):
            last = calendar.monthrange(2000 + (y % 400), m)[1]   # same leap pattern, avoids year < 1 limits
            for d in (1, 15, 28, 29, 30, 31):
                if d <= last:
                    out.append(vlib.dayno(y, m, d))
    return out


@prop("C09")
def c09(v):
    import pools
    v.cov["rule"] = ("days with day-of-month 1/15/28..31 of the window years x month offsets -40..40, the offsets reaching the first and "
                     "last supported month, the interval limits and random offsets, through Date (-> Timestamp at midnight), Timestamp "
                     "(time kept) and OracleDate, add and subtract; last_day_of_month on all three types; DaySweep.tla checks "
                     "last_day_of_month on every day of the window.  Judged by Ops.tla: floor division on 12*year+month-1+k, Err iff the "
                     "target month lacks the day or the year leaves 1..9999.")
    speclaws(v, ["MonthLaws"])
    P = pools.Pools(v.seed, scale_of(v))
    days = month_edge_days(v)
    if v.tier == "thorough":
        days = days[::3] + days[1::3][::2]      # 2/3 of all month-edge days of all years
    plan = []
    rnd = P.rnd
    base = list(range(-40, 41))
    for idx, n in enumerate(days):
        y, m, d = civil(n)
        mi = y * 12 + (m - 1)
        ks = base + [12 - mi, 11 - mi, 13 - mi, 9999 * 12 + 11 - mi, 9999 * 12 + 12 - mi, 9999 * 12 + 10 - mi,
                     pools.YM_MAX, -pools.YM_MAX, rnd.randint(-120000, 120000), rnd.randint(-3000, 3000)]
        t = [rnd.randint(0, 86399), rnd.randint(0, 999999)] if idx % 2 else [86399, 999999]
        plan.append(("VEC", ["D.add_interval_ym" if idx % 2 == 0 else "D.sub_interval_ym", n, ks]))
        plan.append(("VEC", ["TS.add_interval_ym" if idx % 3 else "TS.sub_interval_ym", [n, t[0], t[1]], ks]))
        plan.append(("VEC", ["OD.add_interval_ym" if idx % 3 == 0 else "OD.sub_interval_ym", [n, t[0], 0], ks[::2]]))
        plan.append(("D.last_day_of_month", [n]))
        plan.append(("TS.last_day_of_month", [[n, t[0], t[1]]]))
        plan.append(("OD.last_day_of_month", [[n, t[0], 0]]))
    plan += pools.plan_for(["D.add_interval_ym", "D.sub_interval_ym", "TS.add_interval_ym", "TS.sub_interval_ym",
                            "OD.add_interval_ym", "OD.sub_interval_ym"], P, cap=3000)
    eventtrace(v, "months", plan, {"result", "range", "panic"}, shard=4000)
    # offsets far outside the supported years (up to the interval limits): always an error, in both build profiles
    huge = []
    for idx, n in enumerate(days[:: max(1, len(days) // 40)][:40]):
        ks = [rnd.randint(-pools.YM_MAX, pools.YM_MAX) for _ in range(500)] + [pools.YM_MAX - q for q in range(12)] + [-pools.YM_MAX + q for q in range(12)]
        huge.append(("VEC", [["D.add_interval_ym", "TS.sub_interval_ym", "OD.add_interval_ym"][idx % 3],
                             n if idx % 3 == 0 else [n, 86399, 999999 if idx % 3 == 1 else 0], ks]))
    for profile in ("dev", "release"):
        eventtrace(v, "huge_" + profile, huge, {"result", "range", "panic"}, shard=10, profile=profile)
    daysweep(v, "ldm", sweep_ranges(v, "edges"), "cal", {"ldm"}, 40000)


@prop("C07")
def c07(v):
    import pools
    v.cov["rule"] = ("(B1) DaySweep.tla: every day of the window x critical times (midnight, +1us, noon-1us, noon, last microsecond) and "
                     "random times: Timestamp::new, usecs, extract, accessors, date(), Time::from, order vs the previous microsecond and "
                     "vs the date, judged against the walker frame; (B2) seconds of the day (quick: every 5th) x boundary microseconds: "
                     "try_from_hms, extract, accessors; the (h,m,s,us) validity grid incl. u32 extremes; ordering/equality/hash of "
                     "dates, times and timestamps over pools. distinct_nontrivial = distinct days + distinct (op,args).")
    daysweep(v, "tsx", sweep_ranges(v, "full"), "tsx", {"us", "ext", "tacc", "dt", "tt", "cmpp", "cmpd"}, 8000,
             extra=["--fixed", "0,1,2,3,4", "--ntimes", "0", "--nrand", "2"])
    P = pools.Pools(v.seed, scale_of(v))
    plan = []
    step = 5 if v.tier == "quick" else 1
    usl = [0, 1, 499999, 500000, 999999]
    for k, s_ in enumerate(range(0, 86400, step)):
        h, mi, sc = s_ // 3600, (s_ % 3600) // 60, s_ % 60
        us = usl[k % 5]
        plan.append(("T.try_from_hms", [h, mi, sc, us]))
        plan.append(("T.extract", [[s_, us]]))
        plan.append(("T.acc", [[s_, us]]))
        if k % 4 == 0:
            plan.append(("T.ord", [[s_, us], [max(0, s_ - 1), usl[(k + 1) % 5]]]))
    if v.tier == "thorough":
        for s_ in (0, 43199, 45296, 86399):
            for us in range(0, 1000000):
                plan.append(("T.extract", [[s_, us]]))
    grid_h = [0, 1, 11, 12, 23, 24, 25, pools.U32_MAX]
    grid_m = [0, 1, 59, 60, 61, pools.U32_MAX]
    grid_u = [0, 1, 999999, 1000000, 1000001, pools.U32_MAX]
    for h in grid_h:
        for mi in grid_m:
            for sc in grid_m:
                for us in grid_u:
                    plan.append(("T.try_from_hms", [h, mi, sc, us]))
                    plan.append(("T.is_valid", [h, mi, sc, us]))
                    if (h + mi + sc + us) % 3 == 0:
                        plan.append(("D.and_hms", [0, h, mi, sc, us]))
    # times of day that alias to zero / to the sign bit when a microsecond count or a pre-1970 remainder is narrowed to
    # 32 bits, on dates before and after 1970: split, accessors, recombination
    tsmin, tsmax = pools.DATE_MIN * 86400 * 10**6, (pools.DATE_MAX + 1) * 86400 * 10**6 - 1
    for x in pools.binary_bands(P.rnd, 2**62, ks=(15, 16, 31, 32, 33)):
        if tsmin <= x <= tsmax:
            ts_ = pools.us3(x)
            plan.append(("TS.acc", [ts_]))
            plan.append(("TS.extract", [ts_]))
            plan.append(("T.from_ts", [ts_]))
    for t in P.alias_times:
        for d_ in (-1, -7305, pools.DATE_MIN + 5, 0, 19782, pools.DATE_MAX - 3):
            plan.append(("TS.acc", [[d_, t[0], t[1]]]))
            plan.append(("TS.extract", [[d_, t[0], t[1]]]))
            plan.append(("TS.new", [d_, t]))
            plan.append(("T.from_ts", [[d_, t[0], t[1]]]))
    plan += pools.plan_for(["TS.new", "TS.extract", "TS.usecs", "TS.try_from_usecs", "TS.acc", "TS.ord", "T.ord", "D.ord", "D.and_time",
                            "D.and_hms", "T.from_ts", "T.try_from_usecs", "T.usecs", "D.acc", "T.acc", "D.to_ts"], P, cap=3000)
    eventtrace(v, "clock", plan, {"result", "range", "panic"}, shard=30000)


@prop("C17")
def c17(v):
    import pools
    v.cov["rule"] = ("(B1) DaySweep.tla: per day the 12 trunc_* and 12 round_* results obtained through Date, through Timestamp at "
                     "midnight and at critical whole-second times, and through OracleDate, compared with each other (relational check: "
                     "Date result lifted to midnight = Timestamp result; OracleDate result = Timestamp result at whole seconds); "
                     "(B2) composite events: interval arithmetic, last_day_of_month and differences through the three types side by "
                     "side, mixed-type comparisons in both argument orders vs comparison of the converted values (Ops.tla AG.* clauses).")
    agree = {"agree_d_ts_tr", "agree_d_ts_rd", "agree_ts_od_tr", "agree_ts_od_rd"}
    daysweep(v, "agree", sweep_ranges(v, "full"), "dtr,ttr,otr", agree, 2500, extra=["--fixed", "0,3", "--ntimes", "2", "--nrand", "1"])
    P = pools.Pools(v.seed, scale_of(v) * 2)
    ops = [o for o in pools.SIG if o.startswith("AG.")]
    plan = pools.plan_for(ops, P, cap=3000 * scale_of(v))
    eventtrace(v, "agree", plan, {"result", "panic"})


ALPHABET = ["A", "D", "F", "H", "I", "M", "N", "O", "P", "S", "T", "W", "Y", "a", "d", "f", "h", "i", "m", "n", "o", "p", "s",
            "t", "w", "y", "0", "1", "2", "4", "9", "-", ":", "/", "\\", ",", ".", ";", " ", "#"]
TOKEN_SPELLINGS = ["YYYY", "YYY", "YY", "Y", "MONTH", "MON", "MM", "MI", "DDD", "DD", "DAY", "DY", "D", "HH24", "HH12", "HH", "SS",
                   "FF", "FF1", "FF3", "FF6", "FF9", "A.M.", "P.M.", "AM", "PM", "WW", "W", "T", "-", ":", "/", "\\", ",", ".", ";", " "]
PROBE_TS = [13608, 47289, 123456]     # 2007-04-05 13:08:09.123456, a Thursday


def tla_str(ch):
    return '"\\\\"' if ch == "\\" else '"%s"' % ch


def tla_seq(chars):
    return "<<" + ",".join(tla_str(ch) for ch in chars) + ">>"


def picgen(v, tag, alphabet, k, prefixes, workers=6):
    """Runs PicGen.tla; returns list of (picture chars, verdict, ntokens, text result)."""
    wd = vlib.workdir("%s_picgen_%s" % (v.prop, tag))
    mod = vlib.mc_module(wd, "MCPicGen", "PicGen", {
        "MCAlpha": "{" + ",".join(tla_str(ch) for ch in alphabet) + "}",
        "MCPre": "{" + ",".join(tla_seq(p) for p in prefixes) + "}"})
    cfg = os.path.join(wd, "MC.cfg")
    with open(cfg, "w") as fh:
        fh.write("SPECIFICATION Spec\nCONSTANTS Alphabet <- MCAlpha\n K = %d\n Prefixes <- MCPre\nINVARIANTS LexFacts Emit\nCHECK_DEADLOCK FALSE\n" % k)
    res = vlib.tlc(mod, cfg, workers=workers, xmx="6g", timeout=3000, cwd=wd)
    if res.errors:
        raise ToolError("PicGen(%s): spec invariant violated / error:\n%s" % (tag, "\n".join(res.errors) + res.out[-1500:]))
    v.add_tlc(res, "tlc -config MC.cfg MCPicGen.tla (PicGen, K=%d, |Alphabet|=%d, %d prefixes)" % (k, len(alphabet), len(prefixes)))
    gens = res.tagged("GEN")
    if len(gens) != res.distinct:
        raise ToolError("PicGen(%s): %d GEN lines for %d states" % (tag, len(gens), res.distinct))
    shutil.rmtree(wd, ignore_errors=True)
    return [(g[1], g[2], g[3], g[4]) for g in gens]


def replay_pictures(v, tag, gens):
    """Replays generated pictures: try_new verdict and the probe's text."""
    plan = []
    for pic, verdict, ntok, text in gens:
        if verdict == 2:
            plan.append(("F.try_new", [pic], ("nopanic",)))
            plan.append(("TS.format", [PROBE_TS, pic], ("nopanic",)))
        elif verdict == 1:
            plan.append(("F.try_new", [pic], ("eq", [0, 0])))
            plan.append(("TS.format", [PROBE_TS, pic], ("eq", text) if text[0] == 0 else ("err",)))
        else:
            plan.append(("F.try_new", [pic], ("err",)))
            plan.append(("TS.format", [PROBE_TS, pic], ("err",)))
    bad = replay_plan(v, tag, plan)
    v.cov["distinct_nontrivial"] += len(gens)
    v.cov["traces_validated_against_impl"] += 1
    for op, args, r, exp in bad:
        pic = args[-1]
        v.mismatch("PicGen:" + op, {"op": op, "pic": "".join(pic), "len": len(pic)}, {"observed": r, "expected": list(exp)})
    return len(plan)


def random_pictures(v, n, maxtok=40):
    import random
    rnd = random.Random(v.seed * 7 + 1)
    out = []
    for i in range(n):
        k = rnd.choice([1, 2, 3, 5, 8, 13, 20, 30, 35, 36, 37, 40]) if i % 3 else rnd.randint(1, maxtok)
        pic = []
        longonly = i % 7 == 3         # pictures made of the widest tokens only (up to 36 x MONTH = 180 characters)
        for _ in range(k):
            sp = rnd.choice(["MONTH", "MONTH", "YYYY", "HH24", "HH12", "A.M.", "P.M.", "DDD", "DAY", "MON", "FF9"]) if longonly \
                else rnd.choice(TOKEN_SPELLINGS)
            if sp == " ":
                sp = " " * rnd.choice([1, 1, 2, 3, 7, 31, 100, 255, 256, 257, 300, 511, 512, 600])
            mode = rnd.randint(0, 3)
            sp = sp if mode == 0 else sp.lower() if mode == 1 else sp.capitalize() if mode == 2 else \
                "".join(ch.lower() if rnd.random() < 0.5 else ch for ch in sp)
            if sp in ("t",):
                sp = "T"
            pic += list(sp.replace("t", "T") if sp.upper() == "T" else sp)
        out.append(pic)
    return out


@prop("C19")
def c19(v):
    v.cov["rule"] = ("(A) Pic.tla: reference tokenizer by case-insensitive longest match over the documented token table; TLC checks "
                     "LexFacts in every state of PicGen. (spec->impl) PicGen.tla enumerates every string up to length K over the "
                     "40-symbol alphabet (quick K=3: 65,641; thorough K=4: 2,625,641), every token x 2 followers, every token pair "
                     "x follower, with verdict, token count and the text Render.tla gives a probe timestamp; replayed on "
                     "Formatter::try_new and Timestamp formatting. (impl->spec) random token sequences up to 40 tokens, blank runs "
                     "up to 600, judged by EventTrace.tla. distinct_nontrivial = distinct pictures.")
    k = 3 if v.tier == "quick" else 4
    gens = picgen(v, "all", ALPHABET, k, [[]], workers=max(4, vlib.NCPU - 4))
    v.sample({"generated_pictures": [["".join(g[0]), g[1], g[2]] for g in gens[1000:1004]]})
    replay_pictures(v, "all", gens)
    toks = [list(s) for s in TOKEN_SPELLINGS] + [list(s.lower()) for s in TOKEN_SPELLINGS if s.isalpha() and s != "T"]
    gens = picgen(v, "tokfollow", ALPHABET, 2, toks)
    replay_pictures(v, "tokfollow", gens)
    pairs = [list(a) + list(b) for a in TOKEN_SPELLINGS for b in TOKEN_SPELLINGS]
    gens = picgen(v, "pairs", ALPHABET, 1, pairs)
    replay_pictures(v, "pairs", gens)
    if v.tier == "thorough":
        small = ["A", "D", "F", "H", "M", "O", "N", "P", "S", "Y", "W", ".", "1", "2", " "]
        gens = picgen(v, "len5", small, 5, [[]], workers=max(4, vlib.NCPU - 4))
        replay_pictures(v, "len5", gens)
    # name tokens in every letter-case spelling x every month and weekday (the case of the first two letters selects the style)
    plan = []
    for base in ("MONTH", "MON", "DAY", "DY"):
        variants = {base, base.lower(), base.capitalize(), base[0].lower() + base[1:], base[0] + base[1].lower() + base[2:],
                    base[:2] + base[2:].lower(), base[:2].lower() + base[2:]}
        for var in sorted(variants):
            for k in range(12):
                n = vlib.dayno(2007, k + 1, 5 + k)          # twelve months, and weekdays rotate
                plan.append(("TS.format", [[n, 47289, 123456], list(var + " DD")]))
                plan.append(("D.format", [n, list("YYYY " + var)]))
    eventtrace(v, "names", plan, {"result", "panic"}, shard=2000)
    # impl -> spec: long random pictures
    pics = random_pictures(v, 3000 if v.tier == "quick" else 30000)
    plan = []
    for p in pics:
        plan.append(("F.try_new", [p]))
        plan.append(("TS.format", [PROBE_TS, p]))
    # characters that are no token at all - other white space (tab, LF, CR, FF, VT), NUL, quotes, brackets, letters of
    # no code - at every position of ordinary pictures, in particular next to a blank
    for base in ("DD MM", "YYYY-MM-DD HH24:MI:SS", " DD  MON ", "HH12:MI AM"):
        for ch in ("\t", "\n", "\r", "\x0c", "\x0b", "\x00", "'", '"', "(", "_", "Z", "x", "8"):
            for pos in range(len(base) + 1):
                p = list(base[:pos] + ch + base[pos:])
                plan.append(("F.try_new", [p]))
                if pos % 3 == 0:
                    plan.append(("TS.format", [PROBE_TS, p]))
    eventtrace(v, "randpics", plan, {"result", "panic"}, shard=1500)


PIC_DATE1 = "YYYY-YYY-YY-Y MM MON Mon mon MONTH Month month DD DDD"
PIC_DATE2 = "D DAY Day day DY Dy dy W WW/DD;MM,YYYY"
PIC_TIME = "HH24:MI:SS HH12 HH AM am A.M. a.m. PM pm P.M. p.m."
PIC_FRAC = "FF FF1 FF2 FF3 FF4 FF5 FF6 FF7 FF8 FF9"
PIC_TS = "YYYY-MM-DD\\DDD Dy HH24:MI:SS.FF6 HH12 P.M. FF3"
ALL_TOKENS = ["YYYY", "YYY", "YY", "Y", "MONTH", "Month", "month", "MON", "Mon", "mon", "MM", "MI", "DDD", "DD", "DAY", "Day", "day",
              "DY", "Dy", "dy", "D", "HH24", "HH12", "HH", "SS", "FF", "FF1", "FF2", "FF3", "FF4", "FF5", "FF6", "FF7", "FF8", "FF9",
              "A.M.", "p.m.", "AM", "pm", "WW", "W", "T", "-", ":", "/", "\\", ",", ".", ";", " ", "  "]


def random_token_pictures(rnd, n, maxtok=36):
    out = []
    for _ in range(n):
        k = rnd.randint(1, maxtok)
        out.append(list("".join(rnd.choice(ALL_TOKENS) for _ in range(k))))
    return out


@prop("C04")
def c04(v):
    import pools
    import random
    v.cov["rule"] = ("formatting events recorded from the crate and judged by Render.tla (through Pic.tla): every window day x two "
                     "composite date pictures holding every date token in every letter case (Date), a timestamp picture "
                     "(Timestamp/OracleDate at rotating critical times); seconds of the day x every time token and AM/PM spelling; "
                     "microseconds on a digit-rollover grid x FF, FF1..FF9; boundary/random intervals; random composite pictures of "
                     "up to 36 tokens for all six types incl. inapplicable tokens (error expected). distinct_nontrivial = distinct "
                     "(op, value, picture).")
    P = pools.Pools(v.seed, scale_of(v))
    rnd = random.Random(v.seed + 4)
    plan = []
    days = []
    for a, b in sweep_ranges(v, "full"):
        days += list(range(a, b + 1))
    if v.tier == "thorough":
        days = days[::4] + [d for d in days if d % 4 == 1][::3]      # >1/3 of all days; every day is in C06's sweep
    crit = [[0, 0], [0, 1], [43199, 999999], [43200, 0], [86399, 999999], [3661, 123456]]
    for i, n in enumerate(days):
        plan.append(("D.format", [n, list(PIC_DATE1)]))
        plan.append(("D.format", [n, list(PIC_DATE2)]))
        if i % 3 == 0:
            t = crit[(i // 3) % len(crit)]
            plan.append(("TS.format", [[n, t[0], t[1]], list(PIC_TS)]))
            plan.append(("OD.format", [[n, t[0], 0], list(PIC_DATE2 + " " + "HH:MI:SS pm")]))
    step = 60 if v.tier == "quick" else 1
    secs = sorted(set(list(range(0, 86400, step)) + [h * 3600 + 3599 for h in range(24)] + [h * 3600 for h in range(24)]))
    for s_ in secs:
        plan.append(("T.format", [[s_, (s_ * 7919) % 1000000], list(PIC_TIME)]))
    if v.tier == "quick":
        uss = sorted(set([0, 1, 9, 10, 99, 100, 999, 1000, 9999, 10000, 99999, 100000, 999999, 123456, 500000, 499999, 654321] +
                         [rnd.randint(0, 999999) for _ in range(3000)] + [k * 10**j for j in range(6) for k in range(1, 10)] +
                         [k * 10**j - 1 for j in range(1, 6) for k in range(1, 10)]))
    else:
        uss = range(0, 1000000)
    for us in uss:
        plan.append(("T.format", [[45296, us], list(PIC_FRAC)]))
    for x in P.dt + P.dt_grid:
        plan.append(("DT.format", [x, list("DD HH24:MI:SS.FF6")]))
        plan.append(("DT.format", [x, list("DD HH24:MI:SS.FF9 FF1 FF")]))
    for t in P.t_grid:
        plan.append(("T.format", [t, list(PIC_TIME + " FF6")]))
        plan.append(("TS.format", [[19782, t[0], t[1]], list(PIC_TS)]))
    # day counts of an interval: every count up to 1100 and around the powers of ten (widths 1..9)
    for dcount in list(range(0, 1101)) + [10**p + q for p in range(4, 9) for q in (-1, 0, 1)]:
        if dcount <= 100000000:
            sgn = -1 if dcount % 3 == 1 else 1
            us_ = sgn * (dcount * 86400 * 10**6 + (0 if dcount == 100000000 else (dcount * 7919) % (86400 * 10**6)))
            plan.append(("DT.format", [pools.us3(us_), list("DD HH24:MI:SS.FF6" if dcount % 2 else "HH24 DD")]))
    for k in P.ym:
        plan.append(("YM.format", [k, list("YYYY-MM")]))
        plan.append(("YM.format", [k, list("Y MM YY;YYY")]))
    # random composite pictures for every type (inapplicable tokens -> error expected)
    pics = random_token_pictures(rnd, 700 * scale_of(v))
    tys = [("D", P.dates), ("T", P.times), ("TS", P.ts), ("OD", P.od), ("YM", P.ym), ("DT", P.dt)]
    for i, pic in enumerate(pics):
        for ty, pool in tys:
            for _ in range(2):
                plan.append((ty + ".format", [rnd.choice(pool), pic]))
    # ONE Formatter object formatting values of several types in turn (a formatter has no memory: every step must give
    # what a fresh formatter gives - judged step by step by the F.session clause of Ops.tla)
    somepics = [list(PIC_DATE1), list(PIC_TS), list(PIC_TIME), list("DD HH24:MI:SS.FF6"), list("YYYY-MM")] + pics[:60 * scale_of(v)]
    for pic in somepics:
        steps = []
        for _ in range(8):
            ty, pool = rnd.choice(tys)
            steps.append([ty, rnd.choice(pool)])
        steps.append(list(steps[0]))          # the first value again at the end
        plan.append(("F.session", [pic, steps]))
    # the longest renderings: 36 x the widest token of each type, and long blank runs, through both entry points
    # (Formatter::format into a String and T::format -> Display; the harness reports a disagreement as a panic)
    for ty, pool in tys:
        for tok in ("FF9", "MONTH", "YYYY", "HH24", "DDD", "A.M."):
            plan.append((ty + ".format", [pool[0], list(tok * 36)]))
            plan.append((ty + ".format", [pool[1], list((tok + " ") * 18)]))
        for nb in (255, 300, 325, 400, 1000):
            plan.append((ty + ".format", [pool[0], list(" " * nb)]))
            plan.append((ty + ".format", [pool[2], list("DD" + " " * nb + "HH24")]))
    # single-token pictures x every type: applicability table
    for tok in ALL_TOKENS:
        for ty, pool in tys:
            for val in pool[:6]:
                plan.append((ty + ".format", [val, list(tok)]))
    eventtrace(v, "format", plan, {"result", "panic"}, shard=6000)


# --------------------------------------------------------------------------
# parsing: SpellGen (spec -> impl)
# --------------------------------------------------------------------------
DATE_PICS_FULL = ["YYYY-MM-DD", "DD/MM/YYYY", "YYYYMMDD", "Dy, DD Mon YYYY", "DAY DD MONTH YYYY", "YYYY-DDD", "DDD/YYYY",
                  "YYYY DDD DY", "DAY, YYYY/DDD", "D DDD YYYY",
                  "YYYY-MM-DD DDD", "D YYYY.MM.DD", "MON DD, YYYY", "dd\\mm\\yyyy", "YYYY;MM;DD Day", "Month DD YYYY",
                  "yyyy mon dd dy", "DD-MM-YYYY D DDD", "YYYY MM DDD", "DD DDD YYYY"]
DATE_PICS_PART = ["", " ", "DD", "MM", "MM-DD", "YY-MM-DD", "Y-MM-DD", "YYY-MM-DD", "YYYY", "YYYY-MM", "MON", "DDD", "YY DDD",
                  "YYYY DD", "DD MON YY", "Dy DD", "YYY DDD", "Y", "MONTH YYYY", "DD MM"]
TIME_PICS = ["HH24:MI:SS.FF6", "HH24:MI:SS.FF", "HH24MISS", "HH12:MI:SS AM", "HH:MI:SS.FF3 P.M.", "AM HH12.MI.SS.FF9", "HH24:MI",
             "HH24", "MI:SS", "SS.FF2", "HH12 a.m.", "FF", "HH24:MI:SS.FF7", "hh24-mi-ss", "HH24:MI:SS.FF1", "HH12:MI pm",
             "HH24:MI:SS.FF4", "SS.FF5", "HH24:MI:SS.FF8"]
TS_PICS = ["YYYY-MM-DD HH24:MI:SS.FF6", "YYYY-MM-DDTHH24:MI:SS.FF", "Day DDD YYYY HH24:MI:SS.FF6", "YYYY-DDD Dy HH:MI:SS.FF AM", "DD/MM/YYYY HH12:MI:SS.FF7 PM", "Dy Mon DD HH24:MI:SS YYYY",
           "YYYYMMDDHH24MISSFF6", "YYYY-DDD HH24.MI.SS,FF9", "HH24:MI:SS DD-MON-YYYY", "DD-MON-YY HH:MI A.M.", "YYYY-MM-DD",
           "MM-DD HH24", "YYYY-MM-DD HH12 AM", "YYYY-MM-DD HH24:MI:SS.FF3", "Day, DD Month YYYY HH12:MI:SS.FF am", "HH24:MI",
           "YY-MM-DD HH24:MI:SS", "YYYY/MM/DD HH24:MI:SS.FF8"]
OD_PICS = ["YYYY-MM-DD HH24:MI:SS", "DD/MM/YYYY HH12:MI:SS PM", "YYYY-DDD Dy HH:MI:SS AM", "D DDD YYYY HH24:MI:SS", "YYYYMMDDHH24MISS", "Dy Mon DD HH24:MI:SS YYYY", "YYYY-DDD HH24.MI.SS",
           "YYYY-MM-DD", "DD-MON-YY HH:MI A.M.", "MM-DD HH24", "HH24:MI", "YYYY-MM-DDTHH24:MI:SS"]
YM_PICS = ["YYYY-MM", "YY-MM", "Y MM", "YYYY", "MM", "YYYY/MM", "YYYY MM", "YYY;MM"]
DT_PICS = ["DD HH24:MI:SS.FF6", "DD HH24:MI:SS", "DD", "DD HH24", "HH24:MI:SS", "DD HH24:MI:SS.FF9", "DD HH24:MI:SS.FF7",
           "DD,HH24;MI/SS\\FF", "DD HH24:MI:SS.FF3", "DD HH24:MI"]
CLOCKS = [[2024, 2, 29, 13, 14, 15, 123456], [1999, 12, 31, 23, 59, 59, 999999], [2126, 7, 4, 0, 0, 0, 0], [1, 1, 31, 1, 2, 3, 4],
          [9999, 12, 31, 12, 0, 0, 1], [305, 3, 30, 5, 6, 7, 8]]


def spell_cases(v):
    import pools
    import random
    rnd = random.Random(v.seed * 13 + 5)
    dn = vlib.dayno
    dates = [dn(2007, 4, 5), -719162, 2932896, dn(2024, 2, 29), dn(2024, 12, 31), dn(2000, 2, 29), dn(1900, 3, 1), dn(2023, 1, 31),
             dn(2023, 11, 30), dn(1999, 12, 31), dn(1970, 1, 1), dn(1969, 12, 31), dn(9, 9, 9), dn(2096, 12, 31), dn(305, 3, 30)]
    dates += [rnd.randint(-719162, 2932896) for _ in range(4 * scale_of(v))]
    times = [[0, 0], [47289, 123456], [86399, 999999], [43200, 0], [43199, 999999], [3600, 500000], [45000, 7], [1, 999995],
             [86399, 999994], [0, 999999], [7261, 123400], [52000, 120000], [100, 100000], [43200, 10], [1800, 999900]] + [[rnd.randint(0, 86399), rnd.randint(0, 999999)] for _ in range(3 * scale_of(v))]
    yms = [0, 5, -5, 17, -17, 12, 2136000000, -2136000000, 2135999999, 119988, -13, 1200000] + [rnd.randint(-2136000000, 2136000000) for _ in range(3)]
    day = 86400 * 10**6
    dts = [0, 1, -1, 93784005006, -93784005006, day - 1, -(day - 1), 100000000 * day, -100000000 * day, 100000000 * day - 1,
           31 * day + 5, 32 * day, 999999, 3599999999] + [rnd.randint(-10**17, 10**17) for _ in range(3)]
    dts = [pools.us3(x) for x in dts]
    cases = []
    k = 0

    def add(ty, pics, vals):
        nonlocal k
        for p in pics:
            for val in vals:
                cases.append((ty, list(p), val, CLOCKS[k % len(CLOCKS)]))
                k += 1
    add("D", DATE_PICS_FULL, dates)
    add("D", DATE_PICS_PART, dates[:8] + dates[-2:])
    add("T", TIME_PICS, times)
    tss = [[d, t[0], t[1]] for d, t in zip(dates, times * 3)] + [[2932896, 86399, 999999], [-719162, 0, 0], [2932896, 86399, 999995]]
    add("TS", TS_PICS, tss)
    add("OD", OD_PICS, [[x[0], x[1], 0] for x in tss[:12]])
    add("YM", YM_PICS, yms)
    add("DT", DT_PICS, dts)
    cases += month_end_cases()
    return cases


def month_end_cases():
    """The last day of every month of a common and of a leap year, for every date-bearing type under its plain numeric
    picture: SpellGen's perturbation 'last day of the month + 1' then offers 31 April .. 31 November, 30 / 29 February
    through the text constructor of each type (the triple must be refused whichever type parses it)."""
    out = []
    for y in (2023, 2024):
        for m in range(1, 13):
            n = vlib.dayno(y + (m // 12), (m % 12) + 1, 1) - 1
            out.append(("D", list("YYYY-MM-DD"), n, CLOCKS[0]))
            out.append(("TS", list("YYYY-MM-DD HH24:MI:SS"), [n, 47289, 0], CLOCKS[0]))
            out.append(("OD", list("YYYY-MM-DD HH24:MI:SS"), [n, 47289, 0], CLOCKS[0]))
    return out


def tla_val(x):
    if isinstance(x, list):
        return "<<" + ",".join(tla_val(y) for y in x) + ">>"
    if isinstance(x, str):
        return tla_str(x)
    return str(x)


def spellgen(v, tag, cases, chunks=12):
    """Runs SpellGen.tla over the cases; returns de-duplicated GEN tuples."""
    wd = vlib.workdir("%s_spellgen_%s" % (v.prop, tag))
    parts = [cases[i::chunks] for i in range(chunks)]

    def one(k):
        if not parts[k]:
            return None
        body = "<<" + ",\n".join("<<%s,%s,%s,%s>>" % (tla_str(ty), tla_seq(pic), tla_val(val), tla_val(clk))
                                 for ty, pic, val, clk in parts[k]) + ">>"
        mod = vlib.mc_module(wd, "MCSpellGen%d" % k, "SpellGen", {"MCCases": body})
        cfg = os.path.join(wd, "MC%d.cfg" % k)
        with open(cfg, "w") as fh:
            fh.write("SPECIFICATION Spec\nCONSTANT Cases <- MCCases\nINVARIANTS RoundTripSpec Emit\nCHECK_DEADLOCK FALSE\n")
        res = vlib.tlc(mod, cfg, workers=1, xmx="3g", timeout=3000, cwd=wd, metadir=os.path.join(wd, "m%d" % k))
        if res.errors:
            m_ = res.out.find("Error:")
            rt = res.out.find('"RTFAIL"')
            raise ToolError("SpellGen(%s): spec invariant violated / error:\n%s\n%s" % (tag, res.out[m_:m_ + 1500], res.out[max(0, rt - 10):rt + 1500] if rt >= 0 else ""))
        return res
    gens = {}
    for k, res in enumerate(vlib.parallel(one, list(range(chunks)))):
        if res is None:
            continue
        v.add_tlc(res, "tlc -config MC.cfg MCSpellGen.tla (SpellGen over %d cases)" % len(cases))
        for g in res.tagged("GEN"):
            gens[(k, g[1], g[2])] = g
    shutil.rmtree(wd, ignore_errors=True)
    return list(gens.values())


def replay_spellings(v, tag, gens, want, reuse=False):
    """gens: GEN tuples <<"GEN", case, variant, ty, pic, text, clock, expect, lossless>>."""
    plan = []
    meta = []
    for g in gens:
        _, cs, var, ty, pic, text, clk, exp, loss = g
        if not want(var, exp, loss, ty, pic):
            continue
        plan.append((ty + ".parse_at", [clk, text, pic], ("eq", exp) if exp[0] == 0 else ("err",)))
        meta.append((cs, var))
    bad = replay_plan(v, tag, plan)
    v.cov["distinct_nontrivial"] += len({(p[0], repr(p[1][1:])) for p in plan})
    v.cov["traces_validated_against_impl"] += 1
    if plan:
        v.sample({"generated_spelling": [plan[0][0], "".join(plan[0][1][1]), "".join(plan[0][1][2]), list(plan[0][2])]})
    for op, args, r, exp in bad:
        v.mismatch("SpellGen:" + op, {"op": op, "pic": "".join(args[2]), "text": "".join(args[1]), "clock": args[0]},
                   {"observed": r, "expected": list(exp)})
    if reuse:
        # the same (type, picture, text) under two clocks through ONE Formatter object: each parse must give what the
        # specification generated for its own clock (a formatter keeps no state between calls)
        groups = {}
        for op, a, exp in plan:
            groups.setdefault((op, json.dumps(a[1]), json.dumps(a[2])), []).append((a[0], exp))
        plan2 = []
        for (op, text, pic), lst in groups.items():
            for (c1, e1), (c2, e2) in zip(lst, lst[1:] + lst[:1]):
                if c1 != c2:
                    plan2.append((op.replace("parse_at", "parse_reuse_at"), [c1, c2, json.loads(text), json.loads(pic)], ("pair", e1, e2)))
        bad2 = replay_plan(v, tag + "_reuse", plan2)
        v.cov["traces_validated_against_impl"] += 1
        for op, args, r, exp in bad2:
            v.mismatch("SpellGen:" + op, {"op": op, "pic": "".join(args[3]), "text": "".join(args[2]), "clock": args[0], "clock2": args[1]},
                       {"observed": r, "expected": [list(exp[1]), list(exp[2])]})
        return len(plan) + len(plan2)
    return len(plan)


N_STYLES, MAX_CUT = 25, 40      # = Len(SpellGen!Styles), SpellGen!MaxCut


@prop("C05")
def c05(v):
    v.cov["rule"] = ("SpellGen.tla (spec->impl): for every case (type, picture, value, clock) from pools of complete and partial "
                     "pictures and boundary/random values of all six types, TLC writes the value in each lenient style (padded / "
                     "unpadded / '+' numbers, extra blanks, any letter case, month names for MM, 1-9 fraction digits with half-up "
                     "carry, every allowed omission of trailing time fields) with the value Denote says the text denotes, and every "
                     "applicable single-component perturbation (month 0/13, day 0/32/last+1, hour 24, HH12 0/13, minute/second 60, "
                     "DDD 0/366-in-common-year/367, contradicting weekday / day-of-year, sign on a date field, repeated / output-only "
                     "/ inapplicable code, trailing garbage) expected to fail; each line is replayed on the crate under the injected "
                     "clock. (impl->spec) format->parse round trips with YYYY-DDD etc. over the day window (EventTrace.tla). "
                     "distinct_nontrivial = distinct (picture, text).")
    cases = spell_cases(v)
    gens = spellgen(v, "all", cases)
    replay_spellings(v, "spell", gens, lambda var, exp, loss, ty, pic: True)
    # every (year, day-of-year) of the window through the round trip: DDD must be read back as the same day
    plan = []
    days = []
    for a, b in sweep_ranges(v, "full" if v.tier == "quick" else "all"):
        days += list(range(a, b + 1))
    for i, n in enumerate(days):
        plan.append(("D.roundtrip", [n, list(["YYYY-DDD", "DDD/YYYY", "YYYY-MM-DD DDD", "YYYY MON DDD"][i % 4])]))
    eventtrace(v, "doy", plan, {"result", "panic"}, shard=20000)


@prop("C06")
def c06(v):
    import random
    rnd = random.Random(v.seed + 6)
    v.cov["rule"] = ("(A) SpellGen.tla RoundTripSpec: for every lossless picture (Spell.Lossless: 4-digit year, month+day or "
                     "day-of-year, 24-hour or 12-hour+meridian, >=6 fraction digits, delimited variable-width fields) the renderer's "
                     "text is the canonical spelling and denotes the value. (B) D/T/TS/OD/YM/DT.roundtrip events: format, parse the "
                     "text with the same picture, format again - judged by Ops.tla: value and text reproduced, text = Render.tla; "
                     "over all window days x rotating lossless date pictures, seconds of the day x time pictures, boundary/random "
                     "timestamps, Oracle dates and intervals x picture pools.")
    import pools
    P = pools.Pools(v.seed, scale_of(v))
    lossless_date = [p for p in DATE_PICS_FULL]
    plan = []
    days = []
    for a, b in sweep_ranges(v, "full" if v.tier == "quick" else "all"):
        days += list(range(a, b + 1))
    for i, n in enumerate(days):
        plan.append(("D.roundtrip", [n, list(lossless_date[i % len(lossless_date)])]))
        if i % 5 == 0:
            plan.append(("D.roundtrip", [n, list(lossless_date[(i // 5 + 7) % len(lossless_date)])]))
    step = 20 if v.tier == "quick" else 1
    for k, s_ in enumerate(range(0, 86400, step)):
        us = [0, 1, 500000, 999999, (s_ * 7919) % 1000000][k % 5]
        plan.append(("T.roundtrip", [[s_, us], list(TIME_PICS[k % len(TIME_PICS)])]))
    for x in P.ts:
        for p in rnd.sample(TS_PICS, 6):
            plan.append(("TS.roundtrip", [x, list(p)]))
    for x in P.od:
        for p in rnd.sample(OD_PICS, 4):
            plan.append(("OD.roundtrip", [x, list(p)]))
    for x in P.ym:
        for p in YM_PICS:
            plan.append(("YM.roundtrip", [x, list(p)]))
    for x in P.dt:
        for p in DT_PICS:
            plan.append(("DT.roundtrip", [x, list(p)]))
    for j, x in enumerate(P.dt_grid):      # every combination of the fields at 0 / 1 / their maximum, both signs
        plan.append(("DT.roundtrip", [x, list(DT_PICS[j % len(DT_PICS)])]))
    for j, t in enumerate(P.t_grid):
        plan.append(("T.roundtrip", [t, list(TIME_PICS[j % len(TIME_PICS)])]))
    eventtrace(v, "roundtrip", plan, {"result", "panic"}, shard=8000)
    cases = [c_ for c_ in spell_cases(v)]
    gens = spellgen(v, "rt", cases[::3], chunks=8)       # RoundTripSpec is checked by TLC on these
    replay_spellings(v, "canon", gens, lambda var, exp, loss, ty, pic: var == 1 and loss == 1)


@prop("C18")
def c18(v):
    v.cov["rule"] = ("clock injected through the verif-hooks feature: (1) now()/TryFrom<Time> events for Date, Timestamp, OracleDate "
                     "under every window day x times of day (and clocks outside 1..9999), judged by Ops.tla; (2) SpellGen.tla cases "
                     "with partial pictures (no year / month / day, Y / YY / YYY, HH12 defaults) under six clocks incl. years whose "
                     "hundreds digit is non-zero, Jan 31 and 9999-12-31 - expected value = Spell.Denote (fields completed from the "
                     "clock); complete pictures replayed under different clocks must not depend on the clock; every text is also parsed "
                     "twice through ONE Formatter object under two different clocks (each result = the denotation under its own clock).")
    plan = []
    days = []
    for a, b in sweep_ranges(v, "full" if v.tier == "quick" else "all"):
        days += list(range(a, b + 1))
    tms = [[0, 0, 0, 0], [13, 14, 15, 123456], [23, 59, 59, 999999], [12, 0, 0, 1]]
    for i, n in enumerate(days):
        y, m, d = civil(n)
        t = tms[i % 4]
        clk = [y, m, d] + t
        op = ["D.now_at", "TS.now_at", "OD.now_at"][i % 3]
        plan.append((op, [clk]))
        if i % 7 == 0:
            plan.append(("TS.from_time_at", [clk, [(i * 37) % 86400, (i * 7919) % 1000000]]))
            plan.append(("OD.from_time_at", [clk, [(i * 41) % 86400, (i * 7919) % 1000000]]))
    for clk in [[0, 12, 31, 1, 1, 1, 1], [10000, 1, 1, 0, 0, 0, 0], [-5, 6, 6, 6, 6, 6, 6], [20000, 2, 2, 2, 2, 2, 2]]:
        for op in ["D.now_at", "TS.now_at", "OD.now_at"]:
            plan.append((op, [clk]))
        plan.append(("TS.from_time_at", [clk, [5, 5]]))
        plan.append(("OD.from_time_at", [clk, [5, 5]]))
    eventtrace(v, "now", plan, {"result", "panic"}, shard=20000)
    cases = spell_cases(v)
    part = set(DATE_PICS_PART) | {"HH24:MI", "HH24", "MI:SS", "SS.FF2", "HH12 a.m.", "FF", "HH12:MI pm", "DD-MON-YY HH:MI A.M.",
                                    "MM-DD HH24", "YYYY-MM-DD HH12 AM", "YY-MM-DD HH24:MI:SS", "YYYY-MM-DD"}
    sel = [c_ for c_ in cases if "".join(c_[1]) in part]
    # the same partial case under every clock
    allc = []
    for ty, pic, val, _ in sel[::2]:
        for clk in CLOCKS:
            allc.append((ty, pic, val, clk))
    full = [c_ for c_ in cases if "".join(c_[1]) in ("YYYY-MM-DD", "YYYY-MM-DD HH24:MI:SS.FF6", "YYYY-DDD", "DD/MM/YYYY HH12:MI:SS.FF7 PM",
                                                     "YYYY-MM-DD HH24:MI:SS")]
    for ty, pic, val, _ in full[::3]:
        for clk in CLOCKS[:4]:
            allc.append((ty, pic, val, clk))
    gens = spellgen(v, "clock", allc)
    replay_spellings(v, "clock", gens, lambda var, exp, loss, ty, pic: var <= N_STYLES + MAX_CUT, reuse=True)


FIXED_PICS = {"D": "YYYY-MM-DD", "T": "HH24:MI:SS.FF6", "TS": "YYYY-MM-DD HH24:MI:SS.FF6", "YM": "YYYY-MM",
              "DT": "DD HH24:MI:SS.FF6", "OD": "YYYY-MM-DD HH24:MI:SS"}


@prop("C15")
def c15(v):
    import pools
    v.cov["rule"] = ("(impl->spec, EventTrace.tla) every type x window days / seconds / boundary+random pools: JSON text must be the "
                     "fixed layout rendered by Render.tla, bincode payload the raw count and both decode back to the value; raw "
                     "integers at the range limits +-1, integer extremes, sub-second Oracle payloads decoded from bincode must be "
                     "rejected unless in range. (spec->impl, SpellGen.tla) the canonical spelling of the fixed layouts decodes to the "
                     "value; every lenient, perturbed or malformed string (\"any other payload\") gives an error or a value in "
                     "range, through serde_json.")
    P = pools.Pools(v.seed, scale_of(v) * 2)
    plan = []
    days = []
    for a, b in sweep_ranges(v, "full" if v.tier == "quick" else "all"):
        days += list(range(a, b + 1))
    for i, n in enumerate(days):
        plan.append(("D.json" if i % 2 else "D.bin", [n]))
        if i % 4 == 0:       # the date-bearing types with a time of day: text written and read back
            plan.append(("TS.json", [[n, (i * 7919) % 86400, (i * 104729) % 1000000]]))
        elif i % 4 == 2:
            plan.append(("OD.json", [[n, (i * 7919) % 86400, 0]]))
    for y in range(4, 10000, 4):     # every 29 February (and the 28th of the century years that have none)
        n = vlib.dayno(y, 2, 29) if (y % 100 or y % 400 == 0) else vlib.dayno(y, 2, 28)
        plan.append(("TS.json", [[n, 86399, 999999]]))
        plan.append(("OD.json", [[n, 43200, 0]]))
        plan.append(("D.json", [n]))
    step = 60 if v.tier == "quick" else 1
    for k, s_ in enumerate(range(0, 86400, step)):
        plan.append(("T.json" if k % 2 else "T.bin", [[s_, (s_ * 7919) % 1000000]]))
    tys = [("D", P.dates), ("T", P.times), ("TS", P.ts), ("OD", P.od), ("YM", P.ym), ("DT", P.dt)]
    for ty, pool in tys:
        for x in pool:
            plan.append((ty + ".json", [x]))
            plan.append((ty + ".bin", [x]))
    for x in P.dt_grid:          # every combination of the interval's fields at 0 / 1 / their maximum, both signs
        plan.append(("DT.json", [x]))
    for t in P.t_grid:
        plan.append(("T.json", [t]))
        plan.append(("TS.json", [[-7305, t[0], t[1]]]))
    for raw in P.i32 + [pools.DATE_MIN - 1, pools.DATE_MAX + 1, pools.YM_MAX + 1, -pools.YM_MAX - 1, pools.YM_MAX, -pools.YM_MAX]:
        plan.append(("D.unbin", [raw]))
        plan.append(("YM.unbin", [raw]))
    for raw in P.i64 + P.ts[:40] + P.dt[:40]:
        for ty in ("T", "TS", "OD", "DT"):
            plan.append((ty + ".unbin", [raw]))
    eventtrace(v, "serde", plan, {"result", "range", "panic"}, shard=20000)
    # human-readable decoding of lenient / perturbed strings (spec -> impl)
    cases = []
    for ty, pool in tys:
        for x in pool[:14]:
            cases.append((ty, list(FIXED_PICS[ty]), x, CLOCKS[0]))
    gens = spellgen(v, "fixed", cases, chunks=8)
    plan, other = [], []
    for g in gens:
        _, cs, var, ty, pic, text, clk, exp, loss = g
        if "".join(pic) != FIXED_PICS[ty]:
            continue          # perturbations that change the picture do not apply to a fixed layout
        if var == 1:         # the canonical spelling = what the serializer writes: must decode to the value
            plan.append((ty + ".unjson", [text], ("eq", exp) if exp[0] == 0 else ("err",)))
        else:                # "any other payload": an error or a value in range (judged by ValueInRangeX in EventTrace.tla)
            other.append((ty + ".unjson", [text]))
    eventtrace(v, "unjson_other", other, {"range"}, shard=20000)
    bad = replay_plan(v, "unjson", plan)
    v.cov["distinct_nontrivial"] += len({(p[0], repr(p[1])) for p in plan})
    v.cov["traces_validated_against_impl"] += 1
    for op, args, r, exp in bad:
        v.mismatch("SpellGen:" + op, {"op": op, "text": "".join(args[0])}, {"observed": r, "expected": list(exp)})


@prop("C03")
def c03(v):
    import pools
    import random
    rnd = random.Random(v.seed + 3)
    v.cov["rule"] = ("no event may be a panic (Ops.tla has no panic outcome; EventTrace.tla NoPanicX), with overflow checks on (dev "
                     "profile) and off (release): every operation x boundary pools incl. i32/u32/i64/f64 extremes, NaN, infinities; "
                     "every TLC-generated string up to length 3 over the 40-symbol alphabet used as picture (try_new, format of all "
                     "six types) and as input text against fixed pictures; SpellGen.tla texts incl. all perturbations; random symbol "
                     "sequences up to 700 characters with blank runs of 250-600 and multi-byte characters as picture and as text. "
                     "distinct_nontrivial = distinct (op, args).")
    P = pools.Pools(v.seed, scale_of(v))
    base = pools.plan_for(sorted(pools.SIG), P, cap=500 * scale_of(v), heavy_cap=300)
    tys = [("D", P.dates), ("T", P.times), ("TS", P.ts), ("OD", P.od), ("YM", P.ym), ("DT", P.dt)]
    # every value of every type through composite pictures: formatting + round trip
    for ty, pool in tys:
        for x in pool:
            for p in (PIC_DATE2, PIC_TIME, PIC_FRAC, "DD HH24:MI:SS.FF", "YYYY-MM", "DD", "W WW D DDD"):
                base.append((ty + ".roundtrip", [x, list(p)]))
    for dcount in list(range(0, 400)) + [10**p + q for p in range(3, 9) for q in (-1, 0)]:
        base.append(("DT.roundtrip", [pools.us3((-1 if dcount % 2 else 1) * (dcount * 86400 * 10**6 + (0 if dcount >= 10**8 else dcount))), list("DD HH24:MI:SS.FF6")]))
    for profile in ("dev", "release"):
        eventtrace(v, "ops_" + profile, base, {"panic"}, shard=8000, profile=profile)
    # spec-generated strings as pictures and as texts
    gens = picgen(v, "all", ALPHABET, 3 if v.tier == "quick" else 4, [[]], workers=max(4, vlib.NCPU - 4))
    plan = []
    fixed = list(FIXED_PICS.items()) + [("D", "Dy Mon DD YYYY DDD D"), ("T", "HH12:MI:SS.FF AM"), ("TS", "DAY MONTH DD YYYY HH:MI P.M."),
                                         ("OD", "YY-MON-DD HH24"), ("YM", "Y MM"), ("DT", "DD HH24")]
    vals = {"D": 13608, "T": [47289, 123456], "TS": PROBE_TS, "OD": [13608, 47289, 0], "YM": -17, "DT": [-3, 3600, 5]}
    # every token spelling (upper, lower, capitalised) alone and after a year, formatted with every pool value of every type:
    # a token that does not apply to a type, or a value at a field's extreme (month 0 of an interval, year 1 / 9999,
    # midnight, the last microsecond) must give text or an error, never a panic
    poolvals = {ty: pool for ty, pool in tys}
    for tok in TOKEN_SPELLINGS:
        for sp in sorted({tok, tok.lower(), tok.capitalize()}):
            for ty, pool in tys:
                for x in pool[:: max(1, len(pool) // 40)] + pool[:12]:
                    plan.append((ty + ".format", [x, list(sp)], ("nopanic",)))
                plan.append((ty + ".format", [pool[0], list("YYYY " + sp + " " + sp)], ("nopanic",)))
    for i, g in enumerate(gens):
        s_ = g[0]
        ty, pic = fixed[i % len(fixed)]
        plan.append(("F.try_new", [s_], ("nopanic",)))
        plan.append((ty + ".parse", [s_, list(pic)], ("nopanic",)))
        plan.append((ty + ".parse", [list("2007-04-05 13:08:09.123456"[: 3 + i % 24]), s_], ("nopanic",)))
        plan.append((ty + ".format", [poolvals[ty][(i // len(fixed)) % len(poolvals[ty])] if i % 2 else vals[ty], s_], ("nopanic",)))
    # long random symbol sequences
    sym = ALPHABET + ["@", "$", "Z", "x", "5", "7", "+", "'", '"', "\t"]
    for i in range(1500 * scale_of(v)):
        n = rnd.choice([0, 1, 5, 36, 37, 100, 255, 256, 257, 400, 700])
        s_ = []
        while len(s_) < n:
            r_ = rnd.random()
            if r_ < 0.15:
                s_ += [" "] * rnd.choice([1, 2, 250, 256, 300, 600])
            elif r_ < 0.55:
                s_ += list(rnd.choice(TOKEN_SPELLINGS))
            else:
                s_.append(rnd.choice(sym))
        ty, pic = fixed[i % len(fixed)]
        plan.append(("F.try_new", [s_], ("nopanic",)))
        plan.append((ty + ".parse", [s_, list(pic)], ("nopanic",)))
        plan.append((ty + ".parse", [list("2007-04-05"), s_], ("nopanic",)))
        plan.append((ty + ".parse", [s_, s_], ("nopanic",)))
        plan.append((ty + ".format", [poolvals[ty][(i // len(fixed)) % len(poolvals[ty])] if i % 2 else vals[ty], s_], ("nopanic",)))
    # a valid beginning followed by a long tail with multi-byte characters at every byte offset
    goodtexts = {"D": "2007-04-05", "T": "13:08:09.123456", "TS": "2007-04-05 13:08:09.123456", "OD": "2007-04-05 13:08:09",
                 "YM": "+0001-05", "DT": "-02 22:59:59.999995"}
    tailpics = {"D": ["YYYY-MM-DD", "YYYY/MM/DD", "YYYY,MM;DD", "YYYYTMM\\DD"], "T": ["HH24:MI:SS.FF6", "HH24;MI,SS"],
                "TS": ["YYYY-MM-DD HH24:MI:SS.FF6", "YYYY/MM/DDTHH24;MI,SS"], "OD": ["YYYY-MM-DD HH24:MI:SS", "YYYY/MM/DD HH24,MI;SS"],
                "YM": ["YYYY-MM", "YYYY/MM"], "DT": ["DD HH24:MI:SS.FF6", "DD/HH24,MI;SS"]}
    mb = ["#", "@", "$"]
    for ty, good in goodtexts.items():
        for pic in tailpics[ty]:
            for cutlen in range(0, len(good) + 1, 2):
                for pad in range(0, 5):
                    for total in (40, 64, 70, 130):
                        tail = ["x"] * pad
                        while len(tail) < total:
                            tail.append(mb[(len(tail) + cutlen) % 3])
                        plan.append((ty + ".parse", [list(good[:cutlen]) + tail, list(pic)], ("nopanic",)))
    # SpellGen texts (lenient and perturbed) under both profiles
    sg = spellgen(v, "texts", spell_cases(v)[::2], chunks=10)
    for g in sg:
        plan.append((g[3] + ".parse_at", [g[6], g[5], g[4]], ("nopanic",)))
    v.cov["distinct_nontrivial"] += len(plan)
    for profile in ("dev", "release"):
        bad = replay_plan(v, "strings_" + profile, plan, profile=profile)
        v.cov["traces_validated_against_impl"] += 1
        for op, args, r, exp in bad:
            v.mismatch("Replay:" + op, {"op": op, "aspect": "panic", "profile": profile,
                                        "a": ["".join(x) if isinstance(x, list) and x and isinstance(x[0], str) else x for x in args]},
                       {"observed": r})
    v.sample({"hostile_inputs": [[p[0], "".join(p[1][0])[:40] if isinstance(p[1][0], list) and all(isinstance(c, str) for c in p[1][0])
                                  else p[1][0]] for p in plan[-3:]]})


# --------------------------------------------------------------------------
# (C') the free-running register machine (Machine.tla): spec -> impl
# --------------------------------------------------------------------------
MACHINE_LITS = (("LitD", "D"), ("LitT", "T"), ("LitTS", "TS"), ("LitYM", "YM"), ("LitDT", "DT"), ("LitOD", "OD"))


def machine_ops():
    """The calls Machine.tla models (parsed from its MachineOps definition: one source of truth)."""
    txt = open(os.path.join(vlib.SPEC, "Machine.tla")).read()
    body = txt[txt.index("MachineOps =="):]
    body = body[:body.index("}")]
    return re.findall(r'"([A-Z]+\.[a-z_0-9]+)"', body)


def machine(v, tag, want_op, nconf=4, bfs_budget=700000, sim_num=2000, sim_depth=25, nlit=2, only_range=False, judged=None):
    """Runs Machine.tla (a) breadth-first to the depth the budget allows from `nconf` initial register files
    (invariants RegsInRange, Refines, StepLaws, TruncIdem on every state) and (b) in simulation mode with one
    random call per step; every transition TLC printed is replayed on the crate and its result compared with
    the result the specification computed."""
    import pools
    import random
    ops = [o for o in machine_ops() if want_op(o)]
    if not ops:
        raise ToolError("machine(%s): no operations selected" % tag)
    wd = vlib.workdir("%s_machine_%s" % (v.prop, tag))
    rnd = random.Random(v.seed * 31 + 5)
    P = pools.Pools(v.seed * 31 + 5, 1)
    sig_arity = 2
    confs = []
    for k in range(nconf):
        core = lambda pool, n=10: pool[:n]
        pick = (lambda pool: rnd.choice(core(pool))) if k % 2 == 0 else (lambda pool: rnd.choice(pool))
        init = [pick(P.dates), pick(P.times), pick(P.ts), pick(P.ym), pick(P.dt), pick(P.od)]
        lits = {name: [pick(P.pool(ty)) for _ in range(nlit)] for name, ty in MACHINE_LITS}
        lits["LitI"] = [rnd.choice([0, 1, -1, 31, 365, -366, 146097, 3652058, -3652058, 3652059, 719162, -4000000]) for _ in range(nlit + 1)]
        big = {name: uniq_list(lits[name] + [rnd.choice(P.pool(ty)) for _ in range(10)]) for name, ty in MACHINE_LITS}
        big["LitI"] = uniq_list(lits["LitI"] + [rnd.randint(-40000, 40000) for _ in range(6)])
        confs.append((init, lits, sorted(rnd.sample(range(1, 13), 4)), big))
    # transitions per state ~ sum over ops of prod(|operand set|); pick the depth the budget allows
    per_state = len(ops) * (nlit + 1) ** sig_arity
    depth = 1
    while per_state ** (depth + 1) <= bfs_budget and depth < 4:
        depth += 1
    log("[%s] machine %s: %d calls, %d configurations, breadth-first depth %d, simulation %d x %d steps"
        % (v.prop, tag, len(ops), nconf, depth, sim_num, sim_depth))

    def write_model(k, init, lits, units, maxdepth, keep, spec, emit, litscale=1):
        defs = {"MCInit": tla_val(init), "MCOps": "{" + ",".join('"%s"' % o for o in ops) + "}",
                "MCLitU": "{" + ",".join(str(u) for u in units) + "}"}
        for name, vals in lits.items():
            defs["MC" + name] = "{" + ",".join(tla_val(x) for x in vals) + "}"
        mod = vlib.mc_module(wd, "MCMachine_%s" % k, "Machine", defs)
        cfg = os.path.join(wd, "MC_%s.cfg" % k)
        with open(cfg, "w") as fh:
            fh.write("SPECIFICATION %s\nCONSTANTS InitRegs <- MCInit\n OpNames <- MCOps\n LitU <- MCLitU\n" % spec)
            for name in lits:
                fh.write(" %s <- MC%s\n" % (name, name))
            fh.write(" MaxDepth = %d\n KeepHist = %s\nINVARIANTS RegsInRange Refines StepLaws TruncIdem %s\nCHECK_DEADLOCK FALSE\n"
                     % (maxdepth, "TRUE" if keep else "FALSE", emit))
        return mod, cfg

    def bfs(k):
        init, lits, units4, _ = confs[k]
        units = units4 if depth > 1 else list(range(1, 13))
        mod, cfg = write_model("b%d" % k, init, lits, units, depth, False, "Spec", "EmitStep")
        return vlib.tlc(mod, cfg, workers=max(2, vlib.NCPU // nconf), xmx="6g", timeout=3000, cwd=wd, metadir=os.path.join(wd, "mb%d" % k))

    def sim(k):
        init, _, _, big = confs[k]
        mod, cfg = write_model("s%d" % k, init, big, list(range(1, 13)), sim_depth, True, "SpecRnd", "EmitHist")
        return vlib.tlc(mod, cfg, workers=1, xmx="3g", timeout=3000, cwd=wd, metadir=os.path.join(wd, "ms%d" % k),
                        extra=["-simulate", "num=%d" % (sim_num // nconf), "-depth", str(sim_depth + 2), "-seed", str(v.seed * 100 + k)])

    trans = {}
    nbeh = 0
    import threading
    lock = threading.Lock()

    def digest(mode, fn, k):
        """runs one TLC job and folds what it printed into `trans` at once (the raw output can be hundreds of MB)"""
        res = fn(k)
        if res.errors:
            m_ = res.out.find("Error:")
            raise ToolError("Machine(%s,%s,%d): invariant violated in the specification / error:\n%s" % (tag, mode, k, res.out[m_:m_ + 3000]))
        gens = res.tagged("GEN")
        res.out = ""
        if not gens:
            raise ToolError("Machine(%s,%s,%d): TLC printed no transitions" % (tag, mode, k))
        nb = 0
        with lock:
            if mode == "bfs":
                for g in gens:
                    trans.setdefault(json.dumps([g[1], g[2]]), (g[1], g[2], g[3]))
            else:
                for g in gens:
                    nb += 1
                    for st in g[1]:
                        trans.setdefault(json.dumps([st[0], st[1]]), (st[0], st[1], st[2]))
        return res, nb

    for mode, fn in (("bfs", bfs), ("sim", sim)):
        for res, nb in vlib.parallel(lambda k, mode=mode, fn=fn: digest(mode, fn, k), list(range(nconf)), jobs=4 if mode == "sim" else 2):
            nbeh += nb
            v.add_tlc(res, "tlc -config MC.cfg MCMachine.tla (Machine, %s, %d calls%s)"
                      % (mode, len(ops), (", depth %d" % depth) if mode == "bfs" else (", -simulate num=%d -depth %d" % (sim_num // nconf, sim_depth + 2))))
    never = sorted(set(ops) - {t[0] for t in trans.values()})
    if never:       # vacuity guard: every modelled call must have been taken at least once
        raise ToolError("Machine(%s): calls never taken by TLC: %s" % (tag, never))
    plan = []
    for op, a, r in trans.values():
        if r[0] == 0:
            plan.append((op, a, ("ordeq", r) if op.endswith(".ord") else ("eq", r)))
        else:
            plan.append((op, a, ("err",)))
    for profile in ("release", "dev"):
        bad = replay_plan(v, "machine_%s_%s" % (tag, profile), plan, profile=profile)
        v.cov["traces_validated_against_impl"] += nbeh + 1
        for op, a, r, exp in bad:
            if only_range and not (exp[0] == "err" and isinstance(r, list) and r and r[0] == 0):
                continue
            if judged is not None and not judged(op):
                continue                       # a mover: judged by the property it belongs to
            key = {"op": op, "aspect": "range" if only_range else "result", "profile": profile, "a": a}
            enrich_key(key)
            v.mismatch("Machine:" + op, key,
                       {"observed": r, "expected": list(exp[1]) if len(exp) > 1 else "error"})
    v.cov["distinct_nontrivial"] += len(plan)
    v.sample({"machine_transitions": [[p[0], p[1], p[2][1] if len(p[2]) > 1 else "err"] for p in plan[:3]]})
    shutil.rmtree(wd, ignore_errors=True)
    return len(plan), nbeh


def uniq_list(xs):
    seen, out = set(), []
    for x in xs:
        kx = json.dumps(x)
        if kx not in seen:
            seen.add(kx)
            out.append(x)
    return out



def _name(o):
    return o.split(".", 1)[1]


MACHINE_SUBSETS = {
    # property -> (calls JUDGED for the property, further calls only used to move the registers, aspect)
    # A mismatch on a mover is not this property's business (it belongs to the property that judges that call).
    "C02": (lambda o: True, (), "range"),
    "C07": (lambda o: o in ("TS.new", "TS.extract", "D.and_time", "T.from_ts", "T.extract", "TS.ord", "T.ord"),
            ("TS.add_interval_dt", "TS.sub_time", "D.sub_time", "D.add_days", "T.add_interval_dt"), "result"),
    "C08": (lambda o: (_name(o) in ("add_days", "sub_days", "sub_date", "add_interval_dt", "sub_interval_dt", "add_time", "sub_time",
                                    "sub_timestamp") and o.split(".")[0] in ("D", "TS", "DT"))
            or o in ("YM.add_interval_ym", "YM.sub_interval_ym"), ("DT.neg", "YM.neg", "T.add_interval_dt"), "result"),
    "C09": (lambda o: _name(o) in ("add_interval_ym", "sub_interval_ym", "last_day_of_month") and o.split(".")[0] in ("D", "TS"),
            ("YM.neg", "YM.add_interval_ym", "D.add_days", "TS.add_interval_dt"), "result"),
    "C10": (lambda o: _name(o) == "trunc", ("D.add_days", "TS.add_interval_dt", "OD.add_interval_dt"), "result"),
    "C11": (lambda o: _name(o) == "round", ("D.add_days", "TS.add_interval_dt", "OD.add_interval_dt"), "result"),
    "C12": (lambda o: o in ("T.add_interval_dt", "T.sub_interval_dt", "T.sub_time", "T.from_dt", "T.ord_dt", "DT.ord_t"),
            ("DT.neg", "DT.add_interval_dt", "DT.from_time", "T.from_ts", "DT.sub_interval_dt"), "result"),
    "C13": (lambda o: o in ("YM.neg", "YM.extract", "YM.months", "YM.ord", "DT.neg", "DT.extract", "DT.usecs", "DT.ord"),
            ("YM.add_interval_ym", "YM.sub_interval_ym", "DT.add_interval_dt", "DT.sub_interval_dt", "DT.from_time"), "result"),
    "C16": (lambda o: o in ("OD.new", "OD.from_ts", "OD.add_interval_dt", "OD.sub_interval_dt", "OD.add_interval_ym", "OD.sub_interval_ym",
                            "OD.to_ts", "OD.extract", "OD.usecs", "OD.last_day_of_month"),
            ("TS.add_interval_dt", "TS.sub_interval_dt", "DT.neg", "YM.neg", "T.add_interval_dt"), "result"),
    "C17": (lambda o: o in ("D.ord_ts", "D.ord_od", "TS.ord_d", "TS.ord_od", "OD.ord_ts", "OD.ord_d", "D.to_ts", "OD.to_ts"),
            ("OD.from_ts", "OD.new", "TS.new", "D.add_days", "TS.add_interval_dt", "OD.add_interval_dt", "T.add_interval_dt"), "result"),
}


def _with_machine(prop_id):
    inner = REGISTRY[prop_id]
    judged, movers, aspect = MACHINE_SUBSETS[prop_id]

    def wrapped(v):
        if not os.environ.get("VERIF_ONLY_MACHINE"):     # (set only by bin/machine_matrix: what the machine detects on its own)
            inner(v)
            if prop_id in ("C07", "C09", "C13", "C16", "C17"):
                apalache_laws(v, "Law2")
        thorough = v.tier == "thorough"
        before = len(v.violations)
        n, nbeh = machine(v, "m", lambda o: judged(o) or o in movers, judged=judged, nconf=10 if thorough else 4, bfs_budget=1700000 if thorough else 700000,
                          sim_num=24000 if thorough else 2000, sim_depth=40 if thorough else 25,
                          only_range=(aspect == "range"))
        v.cov["rule"] += (" (M) Machine.tla: the library as a free-running register machine restricted to this property's calls - TLC "
                          "checks RegsInRange / Refines (Fun vs OpOK) / StepLaws / TruncIdem breadth-first and in simulation; all %d "
                          "distinct transitions it printed (%d simulated behaviours) replayed on the crate in both profiles, the "
                          "calls that belong to this property judged (the others only move the registers)%s."
                          % (n, nbeh, "; for this property a mismatch counts when the crate returns a value where the exact result "
                             "lies outside the range" if aspect == "range" else ""))
    wrapped.__name__ = inner.__name__
    REGISTRY[prop_id] = wrapped


for _p in MACHINE_SUBSETS:
    _with_machine(_p)


def selftest():
    """Binding demonstration (DESIGN section 12): corrupt recorded traces in known ways and
    require TLC to flag exactly the corrupted events; remove / swap day records and require
    the walker-driven trace to be rejected or flagged."""
    import copy
    vlib.build_harness("release")
    wd = vlib.workdir("selftest")
    ok = True
    # --- EventTrace: corrupted results
    plan = [("D.add_days", [10957, 5]), ("TS.add_interval_dt", [[0, 0, 0], [1, 2, 3]]), ("T.add_interval_dt", [[86399, 999999], [0, 0, 1]]),
            ("D.trunc", [10957, 5]), ("YM.neg", [17]), ("TS.format", [[13608, 47289, 123456], list("YYYY-MM-DD")])]
    pf = os.path.join(wd, "p.ndjson")
    with open(pf, "w") as fh:
        for op, a in plan:
            fh.write(json.dumps({"op": op, "a": a}) + "\n")
    tf = os.path.join(wd, "t.ndjson")
    vlib.vh(["events", "--out", tf, "--plan", pf])
    evs = [json.loads(l) for l in open(tf)]
    bad = copy.deepcopy(evs)
    bad[0]["r"] = [0, bad[0]["r"][1] + 1]                    # off by one            -> result
    bad[1]["r"] = [0, [2932897, 0, 0]]                        # out of range          -> range + result
    bad[2]["r"] = [2, 0]                                      # a panic               -> panic
    bad[3]["r"] = [1, 1]                                      # an error for a valid call -> result
    bad[5]["r"][1][0] = "3"                                   # one character of the text -> result
    with open(tf, "w") as fh:
        for e in bad:
            fh.write(json.dumps(e) + "\n")
    res = vlib.tlc("EventTrace.tla", os.path.join(vlib.SPEC, "EventTrace.cfg"), env={"TRACE": tf})
    got = {m[1]: set(m[3]["#set"]) for m in res.tagged("MISMATCH")}
    want = {1: {"result"}, 2: {"range", "result"}, 3: {"panic"}, 4: {"result"}, 6: {"result"}}
    print("selftest EventTrace corrupted events flagged:", got == want, got)
    ok &= got == want
    # --- DaySweep: swap two records / drop one / corrupt one field
    rf = os.path.join(wd, "r.txt")
    open(rf, "w").write("11330 11360\n")
    df = os.path.join(wd, "d.ndjson")
    vlib.vh(["daysweep", "--out", df, "--ranges", "@" + rf, "--groups", "cal,dtr"])
    lines = open(df).read().splitlines()
    cfg = os.path.join(vlib.SPEC, "DaySweep.cfg")

    def ds(ls):
        with open(df, "w") as fh:
            fh.write("\n".join(ls) + "\n")
        return vlib.tlc("DaySweep.tla", cfg, env={"TRACE": df})
    r0 = ds(lines)
    base_ok = bool(r0.tagged("ACCEPTED")) and not r0.tagged("MISMATCH")
    # a record claiming to be about another day (records are judged per day; gaps only re-seed the walker)
    wrongday = json.loads(lines[5])
    wrongday["n"] += 1000
    r1 = ds(lines[:5] + [json.dumps(wrongday)] + lines[6:])
    swapped_flagged = bool(r1.tagged("MISMATCH")) or bool(r1.tagged("REJECTED"))
    rec = json.loads(lines[10])
    rec["dow"] = rec["dow"] % 7 + 1
    r2 = ds(lines[:10] + [json.dumps(rec)] + lines[11:])
    field_flagged = any(["dow", 0] in m[3]["#set"] for m in r2.tagged("MISMATCH"))
    print("selftest DaySweep: clean accepted:", base_ok, " record about the wrong day flagged:", swapped_flagged, " corrupted weekday flagged:", field_flagged)
    ok &= base_ok and swapped_flagged and field_flagged
    shutil.rmtree(wd, ignore_errors=True)
    return 0 if ok else 1


def replay(path):
    """Re-executes exactly the failing inputs recorded in a replay file against /repo's current tree and judges
    them again (TLC for recorded events and day records, the recorded expectation for generated behaviours).
    Exit 1 (with a VIOLATION line) if any of them still fails, 0 if all pass now."""
    rp = json.load(open(path))
    v = vlib.Verdict(rp["property"], rp["tier"], rp["seed"])
    v.cov["rule"] = "replay of the %d recorded violations of %s" % (len(rp["violations"]), os.path.basename(path))
    events, days, generated = [], set(), []
    for viol in rp["violations"]:
        what, key, det = viol["what"], viol["key"], viol.get("detail", {})
        if what.startswith("DaySweep:"):
            days.add(key["n"])
        elif what.startswith(("EventTrace:", "SessionTrace:")):
            events.append((key["op"], key["a"], key.get("aspect")))
        elif "expected" in det:
            op = key.get("op") or key.get("check")
            if "args" in key:
                args = key["args"]
            elif "clock" in key:
                args = [key["clock"], list(key["text"]), list(key["pic"])]
            elif op.endswith(".unjson"):
                args = [list(key["text"])]
            elif op == "F.try_new":
                args = [list(key["pic"])]
            elif "pic" in key:
                args = [PROBE_TS, list(key["pic"])]
            else:
                continue
            generated.append((op, args, tuple(det["expected"])))
        elif what.startswith("Replay:"):
            args = [list(x) if isinstance(x, str) else x for x in key["a"]]
            generated.append((key["op"], args, ("nopanic",)))
    log("[replay] %d events, %d days, %d generated behaviours" % (len(events), len(days), len(generated)))
    if events:
        asp = {a for _, _, a in events if a} or {"result", "range", "panic"}
        for profile in ({"dev", "release"} if rp["property"] == "C03" else {"release"}):
            eventtrace(v, "replay_" + profile, [(op, a) for op, a, _ in events], asp, profile=profile)
    if days:
        ranges = vlib.merge_ranges([(n, n) for n in days] + [(n - 1, n - 1) for n in days if n > -719162])
        everything = {"ymd", "rt", "fd", "valid", "dow", "acc", "ordp", "eq", "ldm", "tr", "rd", "trmono", "rdmono", "ttr", "trd", "otr",
                      "ord", "us", "ext", "tacc", "dt", "tt", "cmpp", "cmpd", "of", "on", "ou", "oext", "agree_d_ts_tr", "agree_d_ts_rd",
                      "agree_ts_od_tr", "agree_ts_od_rd"}
        wanted = {vv["key"]["check"] for vv in rp["violations"] if vv["what"].startswith("DaySweep:")} & everything
        daysweep(v, "replay", ranges, "cal,dtr,ttr,otr,tsx,odx", wanted, 5000,
                 extra=["--fixed", "0,1,2,3,4,5,6,7,8,9,10,11,12", "--ntimes", "0", "--nrand", "2"])
    if generated:
        for profile in (("dev", "release") if rp["property"] == "C03" else ("release",)):
            for op, args, r, exp in replay_plan(v, "replay_gen_" + profile, generated, profile=profile):
                v.mismatch("Replay:" + op, {"op": op, "aspect": "replayed", "a": args}, {"observed": r, "expected": list(exp)})
    # a replay must not overwrite the property's evidence file
    vlib.EVID = os.path.join(vlib.WORK, "replay_evidence")
    return v.finish()
