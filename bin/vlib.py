#!/usr/bin/env python3
"""Shared machinery of the /verif checks: building the harness, running the
recorders, running TLC (many single-worker JVMs in parallel on shards),
parsing TLA+ values printed by TLC, known-findings filtering, evidence."""
import concurrent.futures as cf
import datetime
import json
import os
import re
import shutil
import subprocess
import sys
import time

VERIF = os.path.dirname(os.path.dirname(os.path.abspath(__file__)))
SPEC = os.path.join(VERIF, "spec")
HARNESS = os.path.join(VERIF, "harness")
# Scratch evaluation of a patched copy of the repository (bin/try_patch): VERIF_REPO points at the copy,
# VERIF_WORK at a private work directory (evidence and replays then go there too, never into /verif/evidence).
ALT_REPO = os.environ.get("VERIF_REPO")
WORK = os.environ.get("VERIF_WORK") or os.path.join(VERIF, "work")
EVID = os.path.join(WORK, "evidence") if os.environ.get("VERIF_WORK") else os.path.join(VERIF, "evidence")
REPLAYS = os.path.join(WORK, "replays") if os.environ.get("VERIF_WORK") else os.path.join(VERIF, "replays")
NCPU = os.cpu_count() or 4
TLA_CP = "/opt/veriftools/tla/tla2tools.jar:/opt/veriftools/tla/CommunityModules-deps.jar"


class ToolError(Exception):
    pass


def log(*a):
    print(*a, file=sys.stderr, flush=True)


# --------------------------------------------------------------------------
# TLA+ value parser (what TLC prints with PrintT): ints, strings, booleans,
# <<tuples>>, {sets}, [records |-> v], (functions :> / @@)
# --------------------------------------------------------------------------
_tok = re.compile(r'\s*(<<|>>|\[|\]|\{|\}|\(|\)|,|\|->|:>|@@|"(?:[^"\\]|\\.)*"|-?\d+|TRUE|FALSE|[A-Za-z_][A-Za-z0-9_]*)')


class TlaParser:
    def __init__(self, text, pos=0):
        self.t = text
        self.p = pos

    def peek(self):
        m = _tok.match(self.t, self.p)
        return m.group(1) if m else None

    def next(self):
        m = _tok.match(self.t, self.p)
        if not m:
            raise ValueError("tla parse error at %r" % self.t[self.p:self.p + 40])
        self.p = m.end()
        return m.group(1)

    def value(self):
        tk = self.next()
        if tk == "<<":
            out = []
            if self.peek() == ">>":
                self.next()
                return out
            while True:
                out.append(self.value())
                tk = self.next()
                if tk == ">>":
                    return out
                if tk != ",":
                    raise ValueError("expected , or >> got %r" % tk)
        if tk == "{":
            out = []
            if self.peek() == "}":
                self.next()
                return {"#set": out}
            while True:
                out.append(self.value())
                tk = self.next()
                if tk == "}":
                    return {"#set": out}
                if tk != ",":
                    raise ValueError("expected , or } got %r" % tk)
        if tk == "[":
            rec = {}
            while True:
                k = self.next()
                if self.next() != "|->":
                    raise ValueError("expected |->")
                rec[k] = self.value()
                tk = self.next()
                if tk == "]":
                    return rec
                if tk != ",":
                    raise ValueError("expected , or ] got %r" % tk)
        if tk == "(":
            # function printed as (k1 :> v1 @@ k2 :> v2)
            fn = []
            while True:
                k = self.value()
                if self.next() != ":>":
                    raise ValueError("expected :>")
                fn.append([k, self.value()])
                tk = self.next()
                if tk == ")":
                    return {"#fn": fn}
                if tk != "@@":
                    raise ValueError("expected @@ or )")
        if tk.startswith('"'):
            return json.loads(tk)
        if tk == "TRUE":
            return True
        if tk == "FALSE":
            return False
        if re.fullmatch(r"-?\d+", tk):
            return int(tk)
        return {"#id": tk}


def _fast_value(chunk):
    """Fast path: values made of tuples, ints and strings only are JSON after renaming the brackets."""
    if "{" in chunk or "[" in chunk or "|->" in chunk or ":>" in chunk or "TRUE" in chunk or "FALSE" in chunk:
        return None
    try:
        return json.loads(chunk.replace("<<", "[").replace(">>", "]"))
    except ValueError:
        return None


def tagged_values(text, tag):
    """All values TLC printed as << "tag", ... >> (possibly over several lines)."""
    out = []
    head1, head2 = '<<"%s"' % tag, '<< "%s"' % tag
    lines = text.split("\n")
    i, n = 0, len(lines)
    slow = False
    while i < n:
        ln = lines[i]
        if ln.startswith(head1) or ln.startswith(head2):
            chunk = ln
            depth = ln.count("<<") - ln.count(">>")
            while depth > 0 and i + 1 < n:
                i += 1
                chunk += " " + lines[i]
                depth += lines[i].count("<<") - lines[i].count(">>")
            val = _fast_value(chunk)
            if val is None:
                slow = True
                break
            out.append(val)
        i += 1
    if not slow:
        return out
    out = []
    for m in re.finditer(r'<<\s*"%s"' % re.escape(tag), text):
        p = TlaParser(text, m.start())
        try:
            out.append(p.value())
        except ValueError as e:
            raise ToolError("cannot parse TLC output near %r: %s" % (text[m.start():m.start() + 80], e))
    return out


# --------------------------------------------------------------------------
# building and running
# --------------------------------------------------------------------------
def run(cmd, cwd=None, env=None, timeout=None, check=True):
    t0 = time.time()
    p = subprocess.run(cmd, cwd=cwd, env=env, timeout=timeout, stdout=subprocess.PIPE, stderr=subprocess.STDOUT, text=True)
    if check and p.returncode != 0:
        raise ToolError("command failed (%d): %s\n%s" % (p.returncode, " ".join(cmd), p.stdout[-4000:]))
    return p.stdout, time.time() - t0


_built = {}


def build_harness(profile="release"):
    """(Re)builds the harness against /repo's current working tree."""
    if profile in _built:
        return _built[profile]
    env = dict(os.environ, CARGO_NET_OFFLINE="true")
    cmd = ["cargo", "build", "--offline"] + (["--release"] if profile == "release" else [])
    hdir = HARNESS
    if ALT_REPO:
        # private copy of the harness sources whose path dependency points at the scratch repository
        hdir = os.path.join(WORK, "harness_alt")
        os.makedirs(hdir, exist_ok=True)
        for rel in ("Cargo.toml", "Cargo.lock", ".cargo/config.toml", "src"):
            src, dst = os.path.join(HARNESS, rel), os.path.join(hdir, rel)
            if os.path.isdir(src):
                shutil.rmtree(dst, ignore_errors=True)
                shutil.copytree(src, dst)
            else:
                os.makedirs(os.path.dirname(dst), exist_ok=True)
                shutil.copy(src, dst)
        ct = open(os.path.join(hdir, "Cargo.toml")).read().replace('path = "/repo"', 'path = "%s"' % ALT_REPO)
        open(os.path.join(hdir, "Cargo.toml"), "w").write(ct)
    out, dt = run(cmd, cwd=hdir, env=env, timeout=1800, check=False)
    exe = os.path.join(hdir, "target", "release" if profile == "release" else "debug", "vh")
    if not os.path.exists(exe) or "error" in out and "could not compile" in out:
        raise ToolError("harness does not build against /repo:\n" + out[-4000:])
    _built[profile] = exe
    return exe


def vh(args, profile="release", timeout=3600, stdin=None):
    exe = build_harness(profile)
    p = subprocess.run([exe] + args, stdout=subprocess.PIPE, stderr=subprocess.PIPE, text=True, timeout=timeout, input=stdin)
    if p.returncode != 0:
        raise ToolError("harness failed: vh %s\n%s" % (" ".join(args), p.stderr[-3000:]))
    return p.stdout


def workdir(name):
    d = os.path.join(WORK, name)
    shutil.rmtree(d, ignore_errors=True)
    os.makedirs(d)
    return d


class TlcResult:
    def __init__(self, out, wall, rc):
        self.out = out
        self.wall = wall
        self.rc = rc
        m = re.search(r"(\d[\d,]*) states generated, (\d[\d,]*) distinct states found", out)
        self.generated = int(m.group(1).replace(",", "")) if m else 0
        self.distinct = int(m.group(2).replace(",", "")) if m else 0
        self.completed = "Model checking completed" in out or "Finished in" in out
        self.errors = [l for l in out.splitlines() if l.startswith("Error:")]

    def tagged(self, tag):
        return tagged_values(self.out, tag)


def tlc(module, cfg, env=None, workers=1, xmx="3g", timeout=3600, metadir=None, extra=None, cwd=SPEC):
    """Runs TLC; returns TlcResult.  Raises ToolError on timeout / crash."""
    e = dict(os.environ)
    e.pop("JAVA_TOOL_OPTIONS", None)
    if env:
        e.update(env)
    metadir = metadir or os.path.join(WORK, "meta_%d_%d" % (os.getpid(), int(time.time() * 1e6) % 10**9))
    # java is started directly (not through the `tlc` wrapper) so that -Xss is on the
    # command line: only then does the launcher give the MAIN thread the big stack too
    cmd = ["timeout", str(timeout), "java", "-Xss1g", "-Xmx%s" % xmx, "-XX:+UseParallelGC", "-XX:ParallelGCThreads=2",
           "-DTLA-Library=%s" % SPEC, "-cp", TLA_CP, "tlc2.TLC",
           "-workers", str(workers), "-metadir", metadir, "-cleanup",
           "-noGenerateSpecTE", "-config", cfg] + (extra or []) + [module]
    t0 = time.time()
    p = subprocess.run(cmd, cwd=cwd, env=e, stdout=subprocess.PIPE, stderr=subprocess.STDOUT, text=True)
    wall = time.time() - t0
    shutil.rmtree(metadir, ignore_errors=True)
    if p.returncode == 124:
        raise ToolError("TLC timed out after %ss: %s %s" % (timeout, module, cfg))
    res = TlcResult(p.stdout, wall, p.returncode)
    if not res.completed and not res.errors:
        raise ToolError("TLC did not complete: %s %s\n%s" % (module, cfg, p.stdout[-3000:]))
    return res


def mc_module(wd, name, base, defs):
    """Writes <wd>/<name>.tla extending `base` with constant definitions
    (used for CONSTANT x <- MCx substitutions, e.g. sets with negative numbers)."""
    path = os.path.join(wd, name + ".tla")
    with open(path, "w") as fh:
        fh.write("---- MODULE %s ----\nEXTENDS %s\n" % (name, base))
        for k, expr in defs.items():
            fh.write("%s == %s\n" % (k, expr))
        fh.write("====\n")
    return path


def parallel(fn, items, jobs=None):
    jobs = jobs or max(1, NCPU - 2)
    with cf.ThreadPoolExecutor(max_workers=jobs) as ex:
        return list(ex.map(fn, items))


# --------------------------------------------------------------------------
# calendar windows (input selection only - not an oracle)
# --------------------------------------------------------------------------
def dayno(y, m, d):
    return datetime.date(y, m, d).toordinal() - 719163


QUICK_YEARS = sorted(set(
    list(range(1, 6)) + list(range(96, 105)) + list(range(396, 405)) + list(range(1580, 1605)) +
    list(range(1896, 1905)) + list(range(1968, 1973)) + list(range(1996, 2005)) + list(range(2023, 2029)) +
    list(range(2096, 2105)) + list(range(9896, 9905)) + list(range(9946, 9955)) + list(range(9995, 10000)) +
    # every residue of the century years modulo 400 (0: 400/1600/2000, 100: 100/2100, 200: 200/1800, 300: 1900/9900)
    list(range(198, 203)) + list(range(1798, 1803)) + list(range(5998, 6003))))


def merge_ranges(rs):
    rs = sorted(rs)
    out = []
    for a, b in rs:
        if out and a <= out[-1][1] + 1:
            out[-1][1] = max(out[-1][1], b)
        else:
            out.append([a, b])
    return [(a, b) for a, b in out]


def year_ranges(years):
    return merge_ranges([(dayno(y, 1, 1), dayno(y, 12, 31)) for y in years])


def edge_ranges():
    """For every year: 25 Feb .. 3 Mar and 28 Dec .. 4 Jan."""
    rs = []
    for y in range(1, 10000):
        rs.append((dayno(y, 2, 25), dayno(y, 3, 3)))
        rs.append((dayno(y, 1, 1), dayno(y, 1, 4)))
        rs.append((dayno(y, 12, 28), dayno(y, 12, 31)))
    return merge_ranges(rs)


ALL_DAYS = [(-719162, 2932896)]


def split_ranges(ranges, max_records):
    """Splits a list of day ranges into shards of at most max_records days."""
    shards, cur, n = [], [], 0
    for a, b in ranges:
        while a <= b:
            room = max_records - n
            take = min(room, b - a + 1)
            cur.append((a, a + take - 1))
            n += take
            a += take
            if n >= max_records:
                shards.append(cur)
                cur, n = [], 0
    if cur:
        shards.append(cur)
    return shards


def count_days(ranges):
    return sum(b - a + 1 for a, b in ranges)


# --------------------------------------------------------------------------
# known findings, verdicts, evidence
# --------------------------------------------------------------------------
def load_findings():
    p = os.path.join(VERIF, "known_findings.json")
    if not os.path.exists(p):
        return []
    return json.load(open(p))["findings"]


class Verdict:
    """Collects mismatches of one check run, filters them through the known
    findings, writes replay files and the evidence file."""

    def __init__(self, prop, tier, seed):
        self.prop, self.tier, self.seed = prop, tier, seed
        self.t0 = time.time()
        self.violations = []      # dicts
        self.known = {}           # finding id -> count
        self.findings = [f for f in load_findings() if f["property"] == prop and f["status"] == "open"]
        self.cov = {"states": 0, "transitions": 0, "traces_validated_against_impl": 0, "evaluations": 0,
                    "distinct_nontrivial": 0, "samples": [], "checker_cmd": [], "exhaustive": False,
                    "tlc_runs": 0, "rule": ""}
        self.assumptions = []
        self.notes = []

    def add_tlc(self, res, cmd=None):
        self.cov["states"] += res.distinct
        self.cov["transitions"] += res.generated
        self.cov["tlc_runs"] += 1
        if cmd and cmd not in self.cov["checker_cmd"] and len(self.cov["checker_cmd"]) < 8:
            self.cov["checker_cmd"].append(cmd)

    def sample(self, s, limit=6):
        if len(self.cov["samples"]) < limit:
            self.cov["samples"].append(s)

    def mismatch(self, what, key, detail):
        """key: dict describing the failing input (matched against known findings)."""
        for f in self.findings:
            if finding_matches(f, key):
                self.known[f["id"]] = self.known.get(f["id"], 0) + 1
                return
        self.violations.append({"what": what, "key": key, "detail": detail})

    def finish(self):
        wall = time.time() - self.t0
        for f in self.findings:
            if self.known.get(f["id"]):
                print("KNOWN-FINDING: property=%s %s (%d occurrences this run)" % (self.prop, f["what"], self.known[f["id"]]))
        cov = dict(self.cov)
        cov["checker_cmd"] = "; ".join(cov["checker_cmd"]) or "tlc"
        if not cov["samples"]:
            cov["samples"] = ["(no sample recorded)"]
        ev = {
            "property_id": self.prop, "tier": self.tier, "seed": self.seed, "level": "model_checking",
            "coverage": cov,
            "assumptions": self.assumptions + [
                "harness projection (harness/src/proj.rs) between i64 microseconds / f64 / text and the spec's mixed-radix values is correct",
                "TLC 1.8 evaluates the specification faithfully (fingerprint collisions negligible)"],
            "wall_s": round(wall, 2),
            "violations": len(self.violations),
            "known_findings_hit": self.known,
            "notes": self.notes,
        }
        os.makedirs(EVID, exist_ok=True)
        with open(os.path.join(EVID, self.prop + ".json"), "w") as fh:
            json.dump(ev, fh, indent=1)
        if self.violations:
            os.makedirs(REPLAYS, exist_ok=True)
            path = os.path.join(REPLAYS, "%s_%s_%d.json" % (self.prop, self.tier, self.seed))
            with open(path, "w") as fh:
                classes = {}
                for vv in self.violations:
                    ck = "%s/%s" % (vv["what"], vv["key"].get("unit", vv["key"].get("op", "")))
                    classes[ck] = classes.get(ck, 0) + 1
                json.dump({"property": self.prop, "tier": self.tier, "seed": self.seed, "classes": classes,
                           "violations": self.violations[:200], "total": len(self.violations),
                           "how_to_replay": "bin/check replay --replay <this file> re-runs the check of this property with the same tier and seed against /repo's current tree"}, fh, indent=1)
            for v in self.violations[:5]:
                log("violation:", json.dumps(v)[:600])
            print("VIOLATION property=%s replay=%s" % (self.prop, path))
            return 1
        print("OK property=%s tier=%s states=%d transitions=%d traces=%d evaluations=%d wall=%.1fs" % (
            self.prop, self.tier, cov["states"], cov["transitions"], cov["traces_validated_against_impl"],
            cov["evaluations"], wall))
        return 0


def finding_matches(f, key):
    """A finding's `match` is a dict of field -> value | list of values |
    {"min":..,"max":..} | {"mod":m,"eq":r}; all fields must match the key."""
    if "match_any" in f:      # several input descriptions of the same defect (one per kind of check that can meet it)
        return any(finding_matches({"match": m}, key) for m in f["match_any"])
    for k, want in f["match"].items():
        if k not in key:
            return False
        got = key[k]
        if isinstance(want, dict):
            if "min" in want and not (isinstance(got, int) and got >= want["min"]):
                return False
            if "max" in want and not (isinstance(got, int) and got <= want["max"]):
                return False
            if "mod" in want and not (isinstance(got, int) and got % want["mod"] == want["eq"]):
                return False
            if "prefix" in want and not (isinstance(got, str) and got.startswith(want["prefix"])):
                return False
        elif isinstance(want, list):
            if got not in want:
                return False
        elif got != want:
            return False
    return True
