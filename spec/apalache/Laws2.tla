------------------------------- MODULE Laws2 --------------------------------
(***************************************************************************)
(* Unbounded check (Apalache) of further arithmetic facts the              *)
(* specification relies on; the operators are literal, type-annotated      *)
(* copies of Val.tla / Ops.tla.  For ALL normal-form values a, b, i, all   *)
(* integers y, k, n and all months m:                                      *)
(*  Order    MRCmp is the sign of the exact difference, antisymmetric,     *)
(*           zero only for equal values, and invariant under adding the    *)
(*           same interval to both sides (C07, C13, C17: comparing         *)
(*           instants = comparing their (day, second, microsecond));       *)
(*  SignMag  an interval is sign x magnitude with a normal-form magnitude  *)
(*           and negation swaps the sign only (C13);                       *)
(*  Months   moving (y, m) by k months through the month index and back    *)
(*           by -k returns (y, m); the month stays in 1..12 (C09);         *)
(*  Clock    seconds of the day <-> (hour, minute, second) are mutually    *)
(*           inverse on their ranges (C07);                                *)
(*  YmSplit  a month count is sign x (years x 12 + months), months 0..11   *)
(*           (C13);                                                        *)
(*  Floor    dropping the microseconds is the greatest whole second not    *)
(*           after the instant, also for negative day digits (C16).        *)
(* Checked as an invariant of the initial states (--length=0).             *)
(***************************************************************************)
EXTENDS Integers

VARIABLES
  \* @type: <<Int, Int, Int>>;
  a,
  \* @type: <<Int, Int, Int>>;
  b,
  \* @type: <<Int, Int, Int>>;
  i,
  \* @type: Int;
  y,
  \* @type: Int;
  m,
  \* @type: Int;
  k,
  \* @type: Int;
  n

SecPerDay == 86400
UsPerSec  == 1000000

\* @type: (<<Int, Int, Int>>) => <<Int, Int, Int>>;
Norm(v) ==
  LET s2 == v[2] + (v[3] \div UsPerSec)
      u2 == v[3] % UsPerSec
  IN  <<v[1] + (s2 \div SecPerDay), s2 % SecPerDay, u2>>
\* @type: (<<Int, Int, Int>>, <<Int, Int, Int>>) => <<Int, Int, Int>>;
MRAdd(p, q) == Norm(<<p[1] + q[1], p[2] + q[2], p[3] + q[3]>>)
\* @type: (<<Int, Int, Int>>) => <<Int, Int, Int>>;
MRNeg(p)    == Norm(<<-p[1], -p[2], -p[3]>>)
\* @type: (<<Int, Int, Int>>, <<Int, Int, Int>>) => <<Int, Int, Int>>;
MRSub(p, q) == Norm(<<p[1] - q[1], p[2] - q[2], p[3] - q[3]>>)
\* @type: (Int) => Int;
Sgn(j) == IF j < 0 THEN -1 ELSE IF j > 0 THEN 1 ELSE 0
\* @type: (<<Int, Int, Int>>, <<Int, Int, Int>>) => Int;
MRCmp(p, q) == IF p[1] # q[1] THEN Sgn(p[1] - q[1])
               ELSE IF p[2] # q[2] THEN Sgn(p[2] - q[2])
               ELSE Sgn(p[3] - q[3])
\* @type: (<<Int, Int, Int>>) => Bool;
IsNormal(v) == v[2] >= 0 /\ v[2] < SecPerDay /\ v[3] >= 0 /\ v[3] < UsPerSec
\* the total number of microseconds (only used to STATE the laws; the specification never forms it)
\* @type: (<<Int, Int, Int>>) => Int;
Total(v) == (v[1] * SecPerDay + v[2]) * UsPerSec + v[3]

\* @type: (Int) => <<Int, Int, Int>>;
Hms(s) == <<s \div 3600, (s % 3600) \div 60, s % 60>>
\* @type: (Int, Int, Int) => Int;
SodOf(h, mi, s) == h * 3600 + mi * 60 + s

Init == /\ a \in Int \X Int \X Int /\ b \in Int \X Int \X Int /\ i \in Int \X Int \X Int
        /\ IsNormal(a) /\ IsNormal(b) /\ IsNormal(i)
        /\ y \in Int /\ k \in Int /\ n \in Int
        /\ m \in 1..12
Next == UNCHANGED <<a, b, i, y, m, k, n>>

Order ==
  /\ MRCmp(a, b) = Sgn(Total(a) - Total(b))
  /\ MRCmp(a, b) = 0 - MRCmp(b, a)
  /\ (MRCmp(a, b) = 0) = (a = b)
  /\ MRCmp(MRAdd(a, i), MRAdd(b, i)) = MRCmp(a, b)
  /\ Total(MRAdd(a, i)) = Total(a) + Total(i)
  /\ Total(MRSub(a, b)) = Total(a) - Total(b)
  /\ (MRSub(a, b)[1] < 0) = (Total(a) < Total(b))           \* negative <=> negative day digit (floor form)

SignMag ==
  LET neg == i[1] < 0
      \* @type: <<Int, Int, Int>>;
      mag == IF neg THEN MRNeg(i) ELSE i
  IN /\ IsNormal(mag) /\ mag[1] >= 0
     /\ Total(mag) = (IF neg THEN 0 - Total(i) ELSE Total(i))
     /\ (neg => Total(i) < 0) /\ (~neg => Total(i) >= 0)
     /\ Total(MRNeg(i)) = 0 - Total(i)

Months ==
  LET total == y * 12 + (m - 1) + k
      ny == total \div 12
      nm == (total % 12) + 1
      back == ny * 12 + (nm - 1) - k
  IN /\ nm >= 1 /\ nm <= 12
     /\ back \div 12 = y /\ (back % 12) + 1 = m
     /\ ny * 12 + (nm - 1) = y * 12 + (m - 1) + k        \* exactly k months away

Clock ==
  /\ (n >= 0 /\ n < SecPerDay) =>
       LET h == Hms(n) IN /\ SodOf(h[1], h[2], h[3]) = n
                          /\ h[1] >= 0 /\ h[1] < 24 /\ h[2] >= 0 /\ h[2] < 60 /\ h[3] >= 0 /\ h[3] < 60
  /\ LET hh == a[2] \div 3600  mi == (a[2] % 3600) \div 60  ss == a[2] % 60 IN
       Hms(SodOf(hh, mi, ss)) = <<hh, mi, ss>>

YmSplit ==
  LET sg == IF k < 0 THEN -1 ELSE 1
      mag == IF k < 0 THEN 0 - k ELSE k
      yrs == mag \div 12
      mos == mag % 12
  IN mos >= 0 /\ mos <= 11 /\ sg * (yrs * 12 + mos) = k

Floor ==
  LET \* @type: <<Int, Int, Int>>;
      f == <<a[1], a[2], 0>>
  IN /\ Total(f) <= Total(a) /\ Total(a) < Total(f) + UsPerSec
     /\ Total(f) % UsPerSec = 0

Law2 == Order /\ SignMag /\ Months /\ Clock /\ YmSplit /\ Floor
=============================================================================
