-------------------------------- MODULE Laws --------------------------------
(***************************************************************************)
(* Unbounded check (Apalache, integers without a bit width) of the carry   *)
(* arithmetic that Val.tla states in mixed radix and that TLC can only     *)
(* exercise on pools: for ALL instants x = <<day, second, microsecond>>    *)
(* and ALL intervals i in normal form,                                     *)
(*   (x + i) - i = x,  (x + i) - x = i,  x - (x + i) = -i,                 *)
(*   a time of day plus an interval, with the day digit dropped, is a time *)
(*   of day again and the step can be undone (C08, C12, C13).              *)
(* The operators are literal copies of Val.tla's Norm / MRAdd / MRSub /    *)
(* MRNeg with type annotations.  Checked as an invariant of the initial    *)
(* states (--length=0): Init admits every normal-form pair.                *)
(***************************************************************************)
EXTENDS Integers

VARIABLES
  \* @type: <<Int, Int, Int>>;
  x,
  \* @type: <<Int, Int, Int>>;
  i

SecPerDay == 86400
UsPerSec  == 1000000

\* @type: (<<Int, Int, Int>>) => <<Int, Int, Int>>;
Norm(v) ==
  LET s2 == v[2] + (v[3] \div UsPerSec)
      u2 == v[3] % UsPerSec
  IN  <<v[1] + (s2 \div SecPerDay), s2 % SecPerDay, u2>>

\* @type: (<<Int, Int, Int>>, <<Int, Int, Int>>) => <<Int, Int, Int>>;
MRAdd(a, b) == Norm(<<a[1] + b[1], a[2] + b[2], a[3] + b[3]>>)
\* @type: (<<Int, Int, Int>>) => <<Int, Int, Int>>;
MRNeg(a)    == Norm(<<-a[1], -a[2], -a[3]>>)
\* @type: (<<Int, Int, Int>>, <<Int, Int, Int>>) => <<Int, Int, Int>>;
MRSub(a, b) == Norm(<<a[1] - b[1], a[2] - b[2], a[3] - b[3]>>)

\* @type: (<<Int, Int, Int>>) => Bool;
IsNormal(v) == v[2] >= 0 /\ v[2] < SecPerDay /\ v[3] >= 0 /\ v[3] < UsPerSec

Init == /\ x \in Int \X Int \X Int
        /\ i \in Int \X Int \X Int
        /\ IsNormal(x) /\ IsNormal(i)
Next == UNCHANGED <<x, i>>

Law ==
  LET s == MRAdd(x, i) IN
  /\ IsNormal(s)
  /\ MRSub(s, i) = x
  /\ MRSub(s, x) = i
  /\ MRSub(x, s) = MRNeg(i)
  /\ MRNeg(MRNeg(i)) = i
  /\ MRAdd(x, MRNeg(i)) = MRSub(x, i)
  \* C12: time of day (day digit 0) plus interval, day digit dropped, and back
  /\ LET \* @type: <<Int, Int, Int>>;
         t == <<0, x[2], x[3]>>
         r == MRAdd(t, i)
         \* @type: <<Int, Int, Int>>;
         r0 == <<0, r[2], r[3]>>
         back == MRSub(r0, i)
     IN back[2] = x[2] /\ back[3] = x[3]
=============================================================================
