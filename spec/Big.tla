------------------------------- MODULE Big ----------------------------------
(***************************************************************************)
(* Non-negative integers of arbitrary size as little-endian sequences of   *)
(* base-10000 digits (TLC integers are 32-bit; microsecond counts times a  *)
(* 53-bit mantissa need about 120 bits).  Used by Scale.tla to state the   *)
(* float-scaling property C14 exactly, by multiplication only.             *)
(***************************************************************************)
EXTENDS Integers, Sequences

Base == 10000

RECURSIVE BigNormAux(_, _, _)
\* propagate carries of a digit sequence whose digits may exceed Base
BigNormAux(a, i, carry) ==
  IF i > Len(a) THEN
     IF carry = 0 THEN <<>> ELSE <<carry % Base>> \o BigNormAux(a, i, carry \div Base)
  ELSE LET t == a[i] + carry IN <<t % Base>> \o BigNormAux(a, i + 1, t \div Base)
RECURSIVE BigTrim(_)
BigTrim(a) == IF Len(a) > 0 /\ a[Len(a)] = 0 THEN BigTrim(SubSeq(a, 1, Len(a) - 1)) ELSE a
BigNorm(a) == BigTrim(BigNormAux(a, 1, 0))

BigZero == <<>>
BigFromInt(n) == BigNorm(<<n>>)          \* n >= 0
BigIsZero(a) == Len(a) = 0

Dig(a, i) == IF i <= Len(a) THEN a[i] ELSE 0
Max2(x, y) == IF x > y THEN x ELSE y

BigAdd(a, b) == BigNorm([i \in 1..Max2(Len(a), Len(b)) |-> Dig(a, i) + Dig(b, i)])
\* a * m for a small non-negative integer m (m <= 200000)
BigMulSmall(a, m) == BigNorm([i \in 1..Len(a) |-> a[i] * m])
BigShift(a, k) == IF BigIsZero(a) THEN a ELSE [i \in 1..k |-> 0] \o a      \* a * Base^k
RECURSIVE BigMulAux(_, _, _)
BigMulAux(a, b, i) == IF i > Len(b) THEN BigZero
                      ELSE BigAdd(BigShift(BigMulSmall(a, b[i]), i - 1), BigMulAux(a, b, i + 1))
BigMul(a, b) == BigMulAux(a, b, 1)

RECURSIVE BigCmpAux(_, _, _)
BigCmpAux(a, b, i) == IF i = 0 THEN 0
                      ELSE IF a[i] # b[i] THEN (IF a[i] < b[i] THEN -1 ELSE 1)
                      ELSE BigCmpAux(a, b, i - 1)
\* -1 / 0 / 1 (arguments trimmed)
BigCmp(a, b) == IF Len(a) # Len(b) THEN (IF Len(a) < Len(b) THEN -1 ELSE 1)
                ELSE BigCmpAux(a, b, Len(a))
BigLe(a, b) == BigCmp(a, b) <= 0
BigLt(a, b) == BigCmp(a, b) < 0

RECURSIVE BigPow2(_)
\* 2^k
BigPow2(k) == IF k = 0 THEN <<1>>
              ELSE IF k >= 13 THEN BigMulSmall(BigPow2(k - 13), 8192)
              ELSE BigMulSmall(BigPow2(k - 1), 2)
BigMulPow2(a, k) == BigMul(a, BigPow2(k))

\* a - b for a >= b
RECURSIVE BigSubAux(_, _, _, _)
BigSubAux(a, b, i, borrow) ==
  IF i > Len(a) THEN <<>>
  ELSE LET t == a[i] - Dig(b, i) - borrow IN
       IF t < 0 THEN <<t + Base>> \o BigSubAux(a, b, i + 1, 1)
       ELSE <<t>> \o BigSubAux(a, b, i + 1, 0)
BigSub(a, b) == BigTrim(BigSubAux(a, b, 1, 0))

\* value of a small big number as a TLC integer (a < 2^31)
RECURSIVE BigToIntAux(_, _)
BigToIntAux(a, i) == IF i > Len(a) THEN 0 ELSE a[i] + Base * BigToIntAux(a, i + 1)
BigToInt(a) == BigToIntAux(a, 1)
\* fits a TLC integer (< 2 * 10^9)
BigFitsInt(a) == Len(a) <= 2 \/ (Len(a) = 3 /\ a[3] < 20)

\* floor(a / d) and a mod d for a small divisor d (d <= 200000), most significant digit first
RECURSIVE BigDivSmallAux(_, _, _, _)
BigDivSmallAux(a, d, i, rem) ==
  IF i = 0 THEN <<<<>>, rem>>
  ELSE LET t == rem * Base + a[i]
           rest == BigDivSmallAux(a, d, i - 1, t % d)
       IN <<Append(rest[1], t \div d), rest[2]>>
\* <<quotient, remainder>>; the quotient digits come out most-significant-last = little endian
BigDivSmall(a, d) == LET r == BigDivSmallAux(a, d, Len(a), 0) IN <<BigTrim(r[1]), r[2]>>
RECURSIVE BigDivPow2(_, _)
\* floor(a / 2^k)
BigDivPow2(a, k) == IF k = 0 THEN a
                    ELSE IF k >= 13 THEN BigDivPow2(BigDivSmall(a, 8192)[1], k - 13)
                    ELSE BigDivSmall(a, 2^k)[1]
=============================================================================
