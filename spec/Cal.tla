------------------------------- MODULE Cal ---------------------------------
(***************************************************************************)
(* Closed-form proleptic Gregorian calendar used as an oracle.             *)
(* Deliberately NOT the Julian-day formulas of the implementation: it is   *)
(* built from the 400/100/4/1-year cycle decomposition.  CalWalk.tla       *)
(* model-checks every operator here against the day-successor relation     *)
(* (the inductive definition of the calendar) on all 3,652,059 days.       *)
(* Day numbers are days since 1970-01-01; weekdays 1..7 = Sunday..Saturday.*)
(***************************************************************************)
EXTENDS Integers, Sequences

MinYear == 1
MaxYear == 9999
DateMin == -719162          \* 0001-01-01
DateMax == 2932896          \* 9999-12-31
EpochOffset == 719162       \* days from 0001-01-01 to 1970-01-01

Min2(a, b) == IF a < b THEN a ELSE b

IsLeap(y) == y % 4 = 0 /\ (y % 100 # 0 \/ y % 400 = 0)

MonthLen(y, m) ==
  CASE m \in {1, 3, 5, 7, 8, 10, 12} -> 31
    [] m \in {4, 6, 9, 11}           -> 30
    [] m = 2                         -> IF IsLeap(y) THEN 29 ELSE 28

YearLen(y) == IF IsLeap(y) THEN 366 ELSE 365

CumTable == <<0, 31, 59, 90, 120, 151, 181, 212, 243, 273, 304, 334>>
\* days of the year before month m
CumDays(y, m) == CumTable[m] + (IF m > 2 /\ IsLeap(y) THEN 1 ELSE 0)

\* days between 0001-01-01 and 1 January of year y (y >= 1)
DaysBeforeYear(y) ==
  LET p == y - 1 IN 365 * p + (p \div 4) - (p \div 100) + (p \div 400)

DayOfYear(y, m, d) == CumDays(y, m) + d

DaysFromCivil(y, m, d) == DaysBeforeYear(y) + DayOfYear(y, m, d) - 1 - EpochOffset

\* month containing day-of-year doy of year y (tables are built once from
\* MonthLen, TLC caches constant definitions)
MonthTabCommon == [doy \in 1..365 |->
   CHOOSE m \in 1..12 : CumDays(1, m) < doy /\ doy <= CumDays(1, m) + MonthLen(1, m)]
MonthTabLeap == [doy \in 1..366 |->
   CHOOSE m \in 1..12 : CumDays(4, m) < doy /\ doy <= CumDays(4, m) + MonthLen(4, m)]
MonthOfDoy(y, doy) == IF IsLeap(y) THEN MonthTabLeap[doy] ELSE MonthTabCommon[doy]

MonthDayOfDoy(y, doy) == LET m == MonthOfDoy(y, doy) IN <<m, doy - CumDays(y, m)>>

\* <<year, month, day, day-of-year>> of day number n (n >= DateMin)
CivilFromDays(n) ==
  LET z    == n + EpochOffset
      q400 == z \div 146097
      r400 == z % 146097
      c    == Min2(r400 \div 36524, 3)
      r100 == r400 - c * 36524
      q4   == r100 \div 1461
      r4   == r100 % 1461
      a    == Min2(r4 \div 365, 3)
      doy  == r4 - a * 365 + 1
      y    == 400 * q400 + 100 * c + 4 * q4 + a + 1
      md   == MonthDayOfDoy(y, doy)
  IN  <<y, md[1], md[2], doy>>

\* weekday 1..7 = Sunday..Saturday; day 0 (1970-01-01) is a Thursday (5)
Dow(n) == ((n + 4) % 7) + 1

InDateRange(n) == DateMin <= n /\ n <= DateMax

(* Error kinds (shared numbering with the harness) *)
EDateOutOfRange == 1
ETimeOutOfRange == 2
EIntervalOutOfRange == 3
EInvalidNumber == 4
EInvalidMonth == 5
EInvalidDay == 6
EInvalidMinute == 7
EInvalidSecond == 8
EInvalidFraction == 9
EInvalidDate == 10
ENumericOverflow == 11
EDivideByZero == 12
EInvalidFormat == 13
EFormatError == 14
EParseError == 15
ETryReserve == 16

\* Validity of a (year, month, day) triple: 0 = valid, else the error kind,
\* decided in the documented order year -> month -> day -> date-for-month.
YmdVerdict(y, m, d) ==
  IF y < MinYear \/ y > MaxYear THEN EDateOutOfRange
  ELSE IF m < 1 \/ m > 12 THEN EInvalidMonth
  ELSE IF d < 1 \/ d > 31 THEN EInvalidDay
  ELSE IF d > MonthLen(y, m) THEN EInvalidDate
  ELSE 0

\* The error kinds that MATCH a rejected triple.  C01 names "the matching year-range / month / day / date-not-valid-for-month
\* error"; a triple that is wrong in two ways (year 0 and month 13) matches two kinds and the property does not rank them, so any
\* matching kind is allowed - for a triple wrong in ONE way this is exactly YmdVerdict.  (Whether 29 February "exists" in a year
\* outside 1..9999 is not defined: both answers are allowed there, next to the year-range error.)
YmdKinds(y, m, d) ==
  LET yok == y >= MinYear /\ y <= MaxYear  mok == m >= 1 /\ m <= 12  dok == d >= 1 /\ d <= 31
      len == IF ~mok THEN 31 ELSE IF yok THEN MonthLen(y, m) ELSE IF m = 2 THEN 28 ELSE MonthLen(2001, m)
  IN (IF yok THEN {} ELSE {EDateOutOfRange}) \cup (IF mok THEN {} ELSE {EInvalidMonth}) \cup (IF dok THEN {} ELSE {EInvalidDay})
     \cup (IF mok /\ dok /\ d > len THEN {EInvalidDate} ELSE {})
\* as a tuple of kind codes (0 = not matching), for printing
YmdKindsSeq(y, m, d) == LET K == YmdKinds(y, m, d) IN
  <<IF EDateOutOfRange \in K THEN EDateOutOfRange ELSE 0, IF EInvalidMonth \in K THEN EInvalidMonth ELSE 0,
    IF EInvalidDay \in K THEN EInvalidDay ELSE 0, IF EInvalidDate \in K THEN EInvalidDate ELSE 0>>

(* ISO-8601 week-numbering year *)
\* Monday-based index 0..6 (Monday = 0)
MonIdx(n) == (Dow(n) + 5) % 7
\* first day (a Monday) of ISO year y: the Monday of the week holding 4 January
IsoYearStart(y) == LET n4 == DaysFromCivil(y, 1, 4) IN n4 - MonIdx(n4)
IsoYearOf(n) ==
  LET y == CivilFromDays(n)[1] IN
  IF n < IsoYearStart(y) THEN y - 1
  ELSE IF y < MaxYear + 1 /\ n >= IsoYearStart(y + 1) THEN y + 1
  ELSE y
=============================================================================
