----------------------------- MODULE EventTrace -----------------------------
(***************************************************************************)
(* Trace validation of independent calls (impl -> spec).                   *)
(* The trace (ndjson, env TRACE) is a sequence of events                   *)
(*     [i |-> k, op |-> "TS.add_interval_dt", a |-> <<args>>, r |-> result] *)
(* recorded from the real crate.  The cursor consumes one event per step;  *)
(* each event must be a transition the specification allows:               *)
(*     NoPanic(r)            (C03)                                          *)
(*     ValueInRange(op, r)   (C02)                                          *)
(*     OpOK(op, a, r)        (the property the operation belongs to)       *)
(* Disagreements are printed (<<"MISMATCH", i, op, aspects>>) and the run  *)
(* goes on so that one run reports all of them.                            *)
(***************************************************************************)
EXTENDS Ops, Json, IOUtils

Rec == TLCEval(ndJsonDeserialize(IOEnv.TRACE))

VARIABLE cursor      \* the event being consumed
\* (the name matters: TLC slows down ~7x when a state variable shares its name
\*  with bound identifiers such as i used throughout the extended modules)

Init == cursor = 1
Next == cursor < Len(Rec) /\ cursor' = cursor + 1
Spec == Init /\ [][Next]_cursor

Aspects(e) ==
  IF ~NoPanicX(e.op, e.r) THEN {"panic"}
  ELSE (IF ValueInRangeX(e.op, e.a, e.r) THEN {} ELSE {"range"}) \cup
       (IF OpOK(e.op, e.a, e.r) THEN {} ELSE {"result"})

Judge == LET e == Rec[cursor]  bad == Aspects(e) IN
         bad = {} \/ PrintT(<<"MISMATCH", cursor, e.op, bad>>)

Accepted ==
  LET st == TLCGet("stats") IN
  IF st.distinct = Len(Rec) THEN PrintT(<<"ACCEPTED", Len(Rec), st.distinct, st.generated>>)
  ELSE PrintT(<<"REJECTED", Len(Rec), st.distinct, st.generated>>) /\ FALSE
=============================================================================
