------------------------------ MODULE SpecLaws ------------------------------
(***************************************************************************)
(* (A)-level checks: TLC verifies that the specification's own operators   *)
(* have the properties the statements C08, C09, C12, C13 (and the big      *)
(* integers behind C14) ascribe to the library - so that conformance of    *)
(* the code to Ops.tla means something.  Operands range over pools         *)
(* supplied as constants (boundary values of every type + seeded random).  *)
(***************************************************************************)
EXTENDS Ops, TLC

CONSTANTS TsPool, DtPool, TimePool, YmPool, DatePool, MonthOffsets, SmallInts

VARIABLES lawkind, lawa, lawb
lawvars == <<lawkind, lawa, lawb>>

Init == \/ lawkind = "ts_dt"   /\ lawa \in TsPool   /\ lawb \in DtPool
        \/ lawkind = "dt_dt"   /\ lawa \in DtPool   /\ lawb \in DtPool
        \/ lawkind = "time_dt" /\ lawa \in TimePool /\ lawb \in DtPool
        \/ lawkind = "ym"      /\ lawa \in YmPool   /\ lawb \in YmPool
        \/ lawkind = "months"  /\ lawa \in DatePool /\ lawb \in MonthOffsets
        \/ lawkind = "big"     /\ lawa \in SmallInts /\ lawb \in SmallInts
Next == UNCHANGED lawvars
Spec == Init /\ [][Next]_lawvars

\* C08: x + i - i = x, (x + i) - x = i, a - b = -(b - a); order follows the sign of the difference
LinearLaws ==
  lawkind = "ts_dt" =>
    LET x == lawa  i == lawb  s == MRAdd(x, i) IN
    /\ IsTod(s)
    /\ MRSub(s, i) = x
    /\ MRSub(s, x) = i
    /\ MRSub(x, s) = MRNeg(i)
    /\ MRCmp(s, x) = MRSign(i)
    /\ MRAdd(x, MRNeg(i)) = MRSub(x, i)
\* C13 (day-time): negation is an involution on the range; sign x magnitude recomposes the value
IntervalLaws ==
  lawkind = "dt_dt" =>
    LET i == lawa  j == lawb  sm == DtSignMag(i) IN
    /\ MRNeg(MRNeg(i)) = i
    /\ DtInRange(i) => DtInRange(MRNeg(i))
    /\ sm[2] >= 0 /\ sm[3] \in 0..86399 /\ sm[4] \in 0..999999
    /\ (IF sm[1] < 0 THEN MRNeg(<<sm[2], sm[3], sm[4]>>) ELSE <<sm[2], sm[3], sm[4]>>) = i
    /\ MRAdd(i, j) = MRAdd(j, i)
    /\ MRCmp(i, j) = 0 - MRCmp(j, i)
    /\ MRSub(i, j) = MRNeg(MRSub(j, i))
\* C12: a time of day plus / minus any interval is again a time of day, and the step can be undone
WrapLaws ==
  lawkind = "time_dt" =>
    LET t == lawa  i == lawb
        x == MRAdd(TimeAsDt(t), i)  r == <<x[2], x[3]>>
        y == MRSub(TimeAsDt(r), i)
    IN /\ IsTime(r)
       /\ <<y[2], y[3]>> = t
       /\ (i[1] = 0 /\ x[1] = 0) => MRSub(TimeAsDt(r), TimeAsDt(t)) = i
\* C13 (year-month): k = sign * (years * 12 + months), months in 0..11; negation symmetric
YmLaws ==
  lawkind = "ym" =>
    LET k == lawa  a == AbsI(k)  y == a \div 12  m == a % 12 IN
    /\ m \in 0..11
    /\ (IF k < 0 THEN 0 - (y * 12 + m) ELSE y * 12 + m) = k
    /\ YmInRange(k) => YmInRange(0 - k)
    /\ YmVerdictOK(y, m) = YmInRange(k)
    /\ CmpInt(lawa, lawb) = 0 - CmpInt(lawb, lawa)
\* C09: moving by k months keeps the day of month, carries year and month by floor division,
\* and moving back returns to the start; the last day of the month is followed by a first
MonthLaws ==
  lawkind = "months" =>
    LET n == lawa  k == lawb  r == AddMonthsDay(n, k)  c == CivilFromDays(n)  l == LastDayOfMonth(n) IN
    /\ InDateRange(r) =>
         LET cr == CivilFromDays(r) IN
         /\ cr[3] = c[3]
         /\ (cr[1] * 12 + cr[2]) - (c[1] * 12 + c[2]) = k
         /\ AddMonthsDay(r, 0 - k) = n
    /\ ~InDateRange(r) =>
         LET tot == c[1] * 12 + (c[2] - 1) + k  ny == tot \div 12  nm == (tot % 12) + 1 IN
         ny < 1 \/ ny > 9999 \/ c[3] > MonthLen(ny, nm)
    /\ l >= n /\ CivilFromDays(l)[3] \in 28..31 /\ CivilFromDays(l)[2] = c[2]
    /\ l < DateMax => CivilFromDays(l + 1)[3] = 1
\* the big integers of Scale.tla agree with TLC's own integers where both apply
BigLaws ==
  lawkind = "big" =>
    LET a == lawa  b == lawb IN
    /\ BigToInt(BigFromInt(a)) = a
    /\ (a <= 40000 /\ b <= 40000) => BigToInt(BigMul(BigFromInt(a), BigFromInt(b))) = a * b
    /\ (a <= 1000000000 /\ b <= 1000000000) => BigToInt(BigAdd(BigFromInt(a), BigFromInt(b))) = a + b
    /\ (a >= b) => BigToInt(BigSub(BigFromInt(a), BigFromInt(b))) = a - b
    /\ BigCmp(BigFromInt(a), BigFromInt(b)) = CmpInt(a, b)
    /\ (b >= 1 /\ b <= 200000) => LET q == BigDivSmall(BigFromInt(a), b) IN BigToInt(q[1]) = a \div b /\ q[2] = a % b
    /\ (a >= 1 /\ b <= 30) => BigDivPow2(BigMulPow2(BigFromInt(a), b), b) = BigFromInt(a)
    /\ a >= 1 => (BigLt(BigFromInt(a), BigPow2(BitLen(BigFromInt(a)))) /\ ~BigLt(BigFromInt(a), BigPow2(BitLen(BigFromInt(a)) - 1)))
=============================================================================
