-------------------------------- MODULE Pic ---------------------------------
(***************************************************************************)
(* Format pictures (C19): a picture is a sequence of one-character         *)
(* strings; it is accepted exactly when it splits, by case-insensitive     *)
(* longest match, into at most 36 documented tokens.                       *)
(*                                                                         *)
(* Tokens are <<kind, parameter>>:                                         *)
(*   <<"blank", n>>  run of n blanks        <<"lit", c>>   punctuation / T *)
(*   <<"year", n>>   Y, YY, YYY, YYYY       <<"mm", 0>> <<"dd", 0>> ...    *)
(*   <<"month"|"mon"|"day"|"dy", style>>    style 1 UPPER 2 Capital 3 lower *)
(*   <<"ff", p>>     FF (p = 0) or FF1..FF9                                *)
(*   <<"ampm", st>>  1 "AM" 2 "am" 3 "A.M." 4 "a.m."  (PM spellings alike) *)
(***************************************************************************)
EXTENDS Integers, Sequences

MaxFields == 36

UpperOf(c) ==
  CASE c = "a" -> "A" [] c = "d" -> "D" [] c = "f" -> "F" [] c = "h" -> "H" [] c = "i" -> "I"
    [] c = "m" -> "M" [] c = "n" -> "N" [] c = "o" -> "O" [] c = "p" -> "P" [] c = "s" -> "S"
    [] c = "t" -> "T" [] c = "w" -> "W" [] c = "y" -> "Y" [] c = "b" -> "B" [] c = "c" -> "C"
    [] c = "e" -> "E" [] c = "g" -> "G" [] c = "j" -> "J" [] c = "k" -> "K" [] c = "l" -> "L"
    [] c = "q" -> "Q" [] c = "r" -> "R" [] c = "u" -> "U" [] c = "v" -> "V" [] c = "x" -> "X"
    [] c = "z" -> "Z" [] OTHER -> c
IsLower(c) == UpperOf(c) # c
Chars(str) == [i \in 1..Len(str) |-> SubSeq(str, i, i)]

\* does picture p contain, at position i, the word w (upper-case letters / symbols) ignoring case?
MatchCI(p, i, w) ==
  /\ i + Len(w) - 1 <= Len(p)
  /\ \A k \in 1..Len(w) : UpperOf(p[i + k - 1]) = w[k]

\* documented token spellings (upper case), longest first where one is a prefix of another
Spellings == <<
  <<Chars("YYYY"), "year", 4>>, <<Chars("YYY"), "year", 3>>, <<Chars("YY"), "year", 2>>, <<Chars("Y"), "year", 1>>,
  <<Chars("MONTH"), "month", 0>>, <<Chars("MON"), "mon", 0>>, <<Chars("MM"), "mm", 0>>, <<Chars("MI"), "mi", 0>>,
  <<Chars("DDD"), "ddd", 0>>, <<Chars("DD"), "dd", 0>>, <<Chars("DAY"), "day", 0>>, <<Chars("DY"), "dy", 0>>,
  <<Chars("D"), "d", 0>>,
  <<Chars("HH24"), "hh24", 0>>, <<Chars("HH12"), "hh12", 0>>, <<Chars("HH"), "hh12", 0>>,
  <<Chars("SS"), "ss", 0>>,
  <<Chars("FF1"), "ff", 1>>, <<Chars("FF2"), "ff", 2>>, <<Chars("FF3"), "ff", 3>>, <<Chars("FF4"), "ff", 4>>,
  <<Chars("FF5"), "ff", 5>>, <<Chars("FF6"), "ff", 6>>, <<Chars("FF7"), "ff", 7>>, <<Chars("FF8"), "ff", 8>>,
  <<Chars("FF9"), "ff", 9>>, <<Chars("FF"), "ff", 0>>,
  <<Chars("A.M."), "ampm", 3>>, <<Chars("P.M."), "ampm", 3>>, <<Chars("AM"), "ampm", 1>>, <<Chars("PM"), "ampm", 1>>,
  <<Chars("WW"), "ww", 0>>, <<Chars("W"), "w", 0>> >>

Punct == {"-", ":", "/", "\\", ",", ".", ";"}

\* name style from the case of the first two letters: UPPER / Capital / lower
NameStyle(p, i) == IF IsLower(p[i]) THEN 3 ELSE IF IsLower(p[i + 1]) THEN 2 ELSE 1
\* AM/PM style: lower only if every letter is lower case
AmPmStyle(p, i, dotted) ==
  LET second == IF dotted THEN p[i + 2] ELSE p[i + 1]
      lower == IsLower(p[i]) /\ IsLower(second)
  IN IF dotted THEN (IF lower THEN 4 ELSE 3) ELSE (IF lower THEN 2 ELSE 1)

RECURSIVE BlankRun(_, _)
BlankRun(p, i) == IF i <= Len(p) /\ p[i] = " " THEN 1 + BlankRun(p, i + 1) ELSE 0

\* index of the longest documented spelling matching at i (0 if none)
RECURSIVE BestFrom(_, _, _, _)
BestFrom(p, i, k, best) ==
  IF k > Len(Spellings) THEN best
  ELSE IF MatchCI(p, i, Spellings[k][1]) /\ (best = 0 \/ Len(Spellings[k][1]) > Len(Spellings[best][1]))
       THEN BestFrom(p, i, k + 1, k) ELSE BestFrom(p, i, k + 1, best)

\* <<token, length>> at position i (token <<"none", 0>> if no documented token starts here)
TokenAt(p, i) ==
  IF p[i] = " " THEN LET n == BlankRun(p, i) IN << <<"blank", n>>, n>>
  ELSE IF p[i] \in Punct THEN << <<"lit", p[i]>>, 1>>
  ELSE IF p[i] = "T" THEN << <<"lit", "T">>, 1>>          \* the literal T (upper case only)
  ELSE LET b == BestFrom(p, i, 1, 0) IN
       IF b = 0 THEN << <<"none", 0>>, 0>>
       ELSE LET sp == Spellings[b]  kind == sp[2] IN
            << <<kind,
                 CASE kind \in {"month", "mon", "day", "dy"} -> NameStyle(p, i)
                   [] kind = "ampm" -> AmPmStyle(p, i, sp[3] = 3)
                   [] OTHER -> sp[3]>>,
               Len(sp[1])>>

RECURSIVE LexFrom(_, _)
\* token sequence of p from position i, or <<"invalid">> appended marker
LexFrom(p, i) ==
  IF i > Len(p) THEN <<>>
  ELSE LET t == TokenAt(p, i) IN
       IF t[1][1] = "none" THEN << <<"invalid", 0>> >>
       ELSE LET rest == LexFrom(p, i + t[2]) IN
            IF Len(rest) > 0 /\ rest[Len(rest)][1] = "invalid" THEN << <<"invalid", 0>> >>
            ELSE <<t[1]>> \o rest

Lex(p) == LexFrom(p, 1)
IsInvalid(toks) == Len(toks) > 0 /\ toks[Len(toks)][1] = "invalid"
\* C19: accepted exactly when it lexes into at most 36 tokens
PicAccepted(p) == LET t == Lex(p) IN ~IsInvalid(t) /\ Len(t) <= MaxFields
\* pictures whose verdict the property leaves open: a lower-case t (is 'T' a
\* case-insensitive token or the literal?) - judged only for "no panic"
Unjudged(p) == \E i \in 1..Len(p) : p[i] = "t"
=============================================================================
