-------------------------------- MODULE Pic ---------------------------------
(***************************************************************************)
(* Format pictures (C19): a picture is a sequence of one-character         *)
(* strings; it is accepted exactly when it splits, by case-insensitive     *)
(* longest match, into at most 36 documented tokens.                       *)
(*                                                                         *)
(* Tokens are <<kind, parameter>>:                                         *)
(*   <<"blank", n>>  run of n blanks        <<"lit", c>>   punctuation / T *)
(*   <<"year", n>>   Y, YY, YYY, YYYY       <<"mm", 0>> <<"dd", 0>> ...    *)
(*   <<"month"|"mon"|"day"|"dy", style>>    style 1 UPPER 2 Capital 3 lower *)
(*   <<"ff", p>>     FF (p = 0) or FF1..FF9                                *)
(*   <<"ampm", st>>  1 "AM" 2 "am" 3 "A.M." 4 "a.m."  (PM spellings alike) *)
(***************************************************************************)
EXTENDS Integers, Sequences

MaxFields == 36

LowerLetters == <<"a", "b", "c", "d", "e", "f", "g", "h", "i", "j", "k", "l", "m", "n", "o", "p", "q", "r", "s", "t",
                  "u", "v", "w", "x", "y", "z">>
UpperLetters == <<"A", "B", "C", "D", "E", "F", "G", "H", "I", "J", "K", "L", "M", "N", "O", "P", "Q", "R", "S", "T",
                  "U", "V", "W", "X", "Y", "Z">>
\* lookup tables (constant definitions: TLC builds them once)
UpperTab == [c \in {LowerLetters[k] : k \in 1..26} |-> UpperLetters[CHOOSE k \in 1..26 : LowerLetters[k] = c]]
UpperOf(c) == IF c \in DOMAIN UpperTab THEN UpperTab[c] ELSE c
IsLower(c) == UpperOf(c) # c
Chars(str) == [i \in 1..Len(str) |-> SubSeq(str, i, i)]

Upper(p) == [k \in 1..Len(p) |-> UpperOf(p[k])]
\* does the upper-cased picture U contain the word w at position i?
MatchAt(U, i, w) ==
  /\ i + Len(w) - 1 <= Len(U)
  /\ \A k \in 1..Len(w) : U[i + k - 1] = w[k]
\* does picture p contain, at position i, the word w (upper case) ignoring case?
MatchCI(p, i, w) == MatchAt(Upper(p), i, w)

\* documented token spellings (upper case), longest first where one is a prefix of another
Spellings == <<
  <<Chars("YYYY"), "year", 4>>, <<Chars("YYY"), "year", 3>>, <<Chars("YY"), "year", 2>>, <<Chars("Y"), "year", 1>>,
  <<Chars("MONTH"), "month", 0>>, <<Chars("MON"), "mon", 0>>, <<Chars("MM"), "mm", 0>>, <<Chars("MI"), "mi", 0>>,
  <<Chars("DDD"), "ddd", 0>>, <<Chars("DD"), "dd", 0>>, <<Chars("DAY"), "day", 0>>, <<Chars("DY"), "dy", 0>>,
  <<Chars("D"), "d", 0>>,
  <<Chars("HH24"), "hh24", 0>>, <<Chars("HH12"), "hh12", 0>>, <<Chars("HH"), "hh12", 0>>,
  <<Chars("SS"), "ss", 0>>,
  <<Chars("FF1"), "ff", 1>>, <<Chars("FF2"), "ff", 2>>, <<Chars("FF3"), "ff", 3>>, <<Chars("FF4"), "ff", 4>>,
  <<Chars("FF5"), "ff", 5>>, <<Chars("FF6"), "ff", 6>>, <<Chars("FF7"), "ff", 7>>, <<Chars("FF8"), "ff", 8>>,
  <<Chars("FF9"), "ff", 9>>, <<Chars("FF"), "ff", 0>>,
  <<Chars("A.M."), "ampm", 3>>, <<Chars("P.M."), "ampm", 3>>, <<Chars("AM"), "ampm", 1>>, <<Chars("PM"), "ampm", 1>>,
  <<Chars("WW"), "ww", 0>>, <<Chars("W"), "w", 0>> >>

Punct == {"-", ":", "/", "\\", ",", ".", ";"}

\* name style from the case of the first two letters: UPPER / Capital / lower
NameStyle(p, i) == IF IsLower(p[i]) THEN 3 ELSE IF IsLower(p[i + 1]) THEN 2 ELSE 1
\* AM/PM style: lower only if every letter is lower case
AmPmStyle(p, i, dotted) ==
  LET second == IF dotted THEN p[i + 2] ELSE p[i + 1]
      lower == IsLower(p[i]) /\ IsLower(second)
  IN IF dotted THEN (IF lower THEN 4 ELSE 3) ELSE (IF lower THEN 2 ELSE 1)

RECURSIVE BlankRun(_, _)
BlankRun(p, i) == IF i <= Len(p) /\ p[i] = " " THEN 1 + BlankRun(p, i + 1) ELSE 0

\* spellings by first letter, in table order (longer spellings first among those sharing a prefix)
FirstLetters == {Spellings[k][1][1] : k \in 1..Len(Spellings)}
ByFirst == [c \in FirstLetters |-> SelectSeq([k \in 1..Len(Spellings) |-> k], LAMBDA k : Spellings[k][1][1] = c)]
\* index of the longest documented spelling matching at i (0 if none)
RECURSIVE BestIn(_, _, _, _, _)
BestIn(U, i, cands, j, best) ==
  IF j > Len(cands) THEN best
  ELSE LET k == cands[j] IN
       IF MatchAt(U, i, Spellings[k][1]) /\ (best = 0 \/ Len(Spellings[k][1]) > Len(Spellings[best][1]))
       THEN BestIn(U, i, cands, j + 1, k) ELSE BestIn(U, i, cands, j + 1, best)
BestFrom(U, i) == IF U[i] \in FirstLetters THEN BestIn(U, i, ByFirst[U[i]], 1, 0) ELSE 0

\* <<token, length>> at position i (token <<"none", 0>> if no documented token starts here)
TokenAt(p, U, i) ==
  IF p[i] = " " THEN LET n == BlankRun(p, i) IN << <<"blank", n>>, n>>
  ELSE IF p[i] \in Punct THEN << <<"lit", p[i]>>, 1>>
  ELSE IF p[i] = "T" THEN << <<"lit", "T">>, 1>>          \* the literal T
  ELSE IF p[i] = "t" THEN << <<"lit", "t">>, 1>>          \* lower-case t in token position: see Unjudged
  ELSE LET b == BestFrom(U, i) IN
       IF b = 0 THEN << <<"none", 0>>, 0>>
       ELSE LET sp == Spellings[b]  kind == sp[2] IN
            << <<kind,
                 CASE kind \in {"month", "mon", "day", "dy"} -> NameStyle(p, i)
                   [] kind = "ampm" -> AmPmStyle(p, i, sp[3] = 3)
                   [] OTHER -> sp[3]>>,
               Len(sp[1])>>

RECURSIVE LexFrom(_, _, _)
\* token sequence of p from position i, or <<"invalid">> appended marker
LexFrom(p, U, i) ==
  IF i > Len(p) THEN <<>>
  ELSE LET t == TokenAt(p, U, i) IN
       IF t[1][1] = "none" THEN << <<"invalid", 0>> >>
       ELSE LET rest == LexFrom(p, U, i + t[2]) IN
            IF Len(rest) > 0 /\ rest[Len(rest)][1] = "invalid" THEN << <<"invalid", 0>> >>
            ELSE <<t[1]>> \o rest

Lex(p) == LET U == Upper(p) IN LexFrom(p, U, 1)
IsInvalid(toks) == Len(toks) > 0 /\ toks[Len(toks)][1] = "invalid"
\* C19: accepted exactly when it lexes into at most 36 tokens
PicAccepted(p) == LET t == Lex(p) IN ~IsInvalid(t) /\ Len(t) <= MaxFields
\* pictures whose verdict the property leaves open: a lower-case t standing where
\* a token must start (is 'T' a case-insensitive token or only the literal?).
\* They are judged only for "no panic"; a picture that is invalid for another
\* reason, or too long, is rejected under either reading.
Unjudged(p) == LET t == Lex(p) IN
               ~IsInvalid(t) /\ Len(t) <= MaxFields /\ \E k \in 1..Len(t) : t[k] = <<"lit", "t">>
=============================================================================
