------------------------------ MODULE Machine -------------------------------
(***************************************************************************)
(* The library as a free-running register machine (spec -> impl).          *)
(*                                                                         *)
(* SessionTrace.tla consumes sessions recorded from the crate; this module *)
(* is the same machine running on its own: six registers, one per value    *)
(* type, and one action per public call whose operands are the registers   *)
(* or a literal of the model's small pools and whose Ok result is stored   *)
(* into the register of its type.  The result of every step is COMPUTED    *)
(* here, by Fun, a functional formulation of the calls written             *)
(* independently of the result relation OpOK of Ops.tla.                   *)
(*                                                                         *)
(* TLC checks on it                                                        *)
(*   RegsInRange  every register stays inside its type's range whatever    *)
(*                sequence of calls is made (closure: C02, and through     *)
(*                OdInRange the whole-second clause of C16);               *)
(*   Refines      every computed step is a transition Ops.tla allows (the  *)
(*                two formulations of the specification agree);            *)
(*   StepLaws     a few two-step laws on consecutive steps (inverse        *)
(*                operations restore the register).                        *)
(* and prints what it explored: in breadth-first mode one GEN line per     *)
(* distinct transition <<op, a, r>>, in simulation mode one GEN line per   *)
(* behaviour (the whole history).  The driver replays every printed call   *)
(* on the real crate and compares the result with the one computed here -  *)
(* operands two or more steps deep are values the SPECIFICATION produced.  *)
(*                                                                         *)
(* Only calls whose result the specification determines uniquely are       *)
(* enabled (Determinate): rounding inside a shortened week and the float   *)
(* day arithmetic are relations in Ops.tla and are validated impl -> spec. *)
(***************************************************************************)
EXTENDS Ops

CONSTANTS InitRegs,    \* <<D, T, TS, YM, DT, OD>> initial register values
          LitD, LitT, LitTS, LitYM, LitDT, LitOD,   \* literal operand pools per register type
          LitI,        \* literal day counts (i32 operands)
          LitU,        \* truncation / rounding unit indices (subset of 1..12)
          OpNames,     \* the calls enabled in this run (subset of MachineOps)
          MaxDepth,    \* number of steps per behaviour
          KeepHist     \* TRUE: carry the whole history (simulation); FALSE: only the last step (breadth-first)

RegTypes == <<"D", "T", "TS", "YM", "DT", "OD">>
RegIdx(ty) == CHOOSE j \in 1..6 : RegTypes[j] = ty

VARIABLES mregs,   \* the six registers, in the order of RegTypes
          mlast,   \* the last step <<op, a, r>> or <<>>
          mprev,   \* the step before it (for the two-step laws)
          mhist,   \* history of steps when KeepHist
          mdepth
mvars == <<mregs, mlast, mprev, mhist, mdepth>>

(* ----------------------------- signatures ------------------------------- *)
\* operand types: register types, "I" day count, "U" unit index
ArgTys(op) ==
  CASE op \in {"D.add_days", "D.sub_days"} -> <<"D", "I">>
    [] op = "D.sub_date" -> <<"D", "D">>
    [] op \in {"D.and_time", "D.add_time", "D.sub_time"} -> <<"D", "T">>
    [] op \in {"D.to_ts", "D.last_day_of_month", "D.days", "D.extract", "D.day_of_week"} -> <<"D">>
    [] op \in {"D.add_interval_ym", "D.sub_interval_ym"} -> <<"D", "YM">>
    [] op \in {"D.add_interval_dt", "D.sub_interval_dt"} -> <<"D", "DT">>
    [] op = "D.sub_timestamp" -> <<"D", "TS">>
    [] op \in {"D.trunc", "D.round"} -> <<"D", "U">>
    [] op = "D.ord" -> <<"D", "D">>
    [] op = "D.ord_ts" -> <<"D", "TS">>
    [] op = "D.ord_od" -> <<"D", "OD">>
    [] op \in {"T.sub_time", "T.ord"} -> <<"T", "T">>
    [] op \in {"T.add_interval_dt", "T.sub_interval_dt", "T.ord_dt"} -> <<"T", "DT">>
    [] op \in {"T.usecs", "T.extract"} -> <<"T">>
    [] op = "T.from_ts" -> <<"TS">>
    [] op = "T.from_od" -> <<"OD">>
    [] op = "T.from_dt" -> <<"DT">>
    [] op = "TS.new" -> <<"D", "T">>
    [] op \in {"TS.extract", "TS.usecs", "TS.last_day_of_month"} -> <<"TS">>
    [] op \in {"TS.add_interval_dt", "TS.sub_interval_dt"} -> <<"TS", "DT">>
    [] op \in {"TS.add_time", "TS.sub_time"} -> <<"TS", "T">>
    [] op \in {"TS.add_interval_ym", "TS.sub_interval_ym"} -> <<"TS", "YM">>
    [] op \in {"TS.sub_date", "TS.ord_d"} -> <<"TS", "D">>
    [] op \in {"TS.sub_timestamp", "TS.ord"} -> <<"TS", "TS">>
    [] op \in {"TS.oracle_sub_date", "TS.ord_od"} -> <<"TS", "OD">>
    [] op \in {"TS.trunc", "TS.round"} -> <<"TS", "U">>
    [] op \in {"YM.add_interval_ym", "YM.sub_interval_ym", "YM.ord"} -> <<"YM", "YM">>
    [] op \in {"YM.neg", "YM.months", "YM.extract"} -> <<"YM">>
    [] op \in {"DT.add_interval_dt", "DT.sub_interval_dt", "DT.ord"} -> <<"DT", "DT">>
    [] op \in {"DT.sub_time", "DT.ord_t"} -> <<"DT", "T">>
    [] op \in {"DT.neg", "DT.usecs", "DT.extract"} -> <<"DT">>
    [] op = "DT.from_time" -> <<"T">>
    [] op = "OD.new" -> <<"D", "T">>
    [] op = "OD.from_ts" -> <<"TS">>
    [] op \in {"OD.to_ts", "OD.to_time", "OD.usecs", "OD.extract", "OD.last_day_of_month"} -> <<"OD">>
    [] op \in {"OD.add_interval_dt", "OD.sub_interval_dt"} -> <<"OD", "DT">>
    [] op \in {"OD.add_interval_ym", "OD.sub_interval_ym"} -> <<"OD", "YM">>
    [] op \in {"OD.add_time", "OD.sub_time"} -> <<"OD", "T">>
    [] op \in {"OD.sub_date", "OD.ord"} -> <<"OD", "OD">>
    [] op \in {"OD.sub_timestamp", "OD.ord_ts"} -> <<"OD", "TS">>
    [] op = "OD.ord_d" -> <<"OD", "D">>
    [] op \in {"OD.trunc", "OD.round"} -> <<"OD", "U">>

MachineOps ==
  {"D.add_days", "D.sub_days", "D.sub_date", "D.and_time", "D.add_time", "D.sub_time", "D.to_ts", "D.last_day_of_month",
   "D.days", "D.extract", "D.day_of_week", "D.add_interval_ym", "D.sub_interval_ym", "D.add_interval_dt",
   "D.sub_interval_dt", "D.sub_timestamp", "D.trunc", "D.round", "D.ord", "D.ord_ts", "D.ord_od",
   "T.sub_time", "T.ord", "T.add_interval_dt", "T.sub_interval_dt", "T.ord_dt", "T.usecs", "T.extract", "T.from_ts",
   "T.from_od", "T.from_dt",
   "TS.new", "TS.extract", "TS.usecs", "TS.last_day_of_month", "TS.add_interval_dt", "TS.sub_interval_dt", "TS.add_time",
   "TS.sub_time", "TS.add_interval_ym", "TS.sub_interval_ym", "TS.sub_date", "TS.ord_d", "TS.sub_timestamp", "TS.ord",
   "TS.oracle_sub_date", "TS.ord_od", "TS.trunc", "TS.round",
   "YM.add_interval_ym", "YM.sub_interval_ym", "YM.ord", "YM.neg", "YM.months", "YM.extract",
   "DT.add_interval_dt", "DT.sub_interval_dt", "DT.ord", "DT.sub_time", "DT.ord_t", "DT.neg", "DT.usecs", "DT.extract",
   "DT.from_time",
   "OD.new", "OD.from_ts", "OD.to_ts", "OD.to_time", "OD.usecs", "OD.extract", "OD.last_day_of_month",
   "OD.add_interval_dt", "OD.sub_interval_dt", "OD.add_interval_ym", "OD.sub_interval_ym", "OD.add_time", "OD.sub_time",
   "OD.sub_date", "OD.ord", "OD.sub_timestamp", "OD.ord_ts", "OD.ord_d", "OD.trunc", "OD.round"}

(* --------------------- the calls, functionally ------------------------- *)
\* results: <<0, v>> Ok, <<1, 0>> an error (kind not determined by the properties)
Ok(v) == <<0, v>>
ErrAny == <<1, 0>>
OkIf(c, v) == IF c THEN <<0, v>> ELSE ErrAny
DateRes(n) == OkIf(InDateRange(n), n)
TsRes(x)   == OkIf(TsInRange(x), x)
DtRes(x)   == OkIf(DtInRange(x), x)
OdFloorRes(x) == OkIf(TsInRange(x), <<x[1], x[2], 0>>)
Floor1(x)  == <<x[1], x[2], 0>>
\* date of (n moved by k months) as a result carrying time-of-day <<s, u>>
MonthsRes(n, k, s, u) == LET q == AddMonthsDay(n, k) IN OkIf(InDateRange(q), <<q, s, u>>)
YmSum(a, b) == IF (b > 0 /\ a > YmMax - b) \/ (b < 0 /\ a < (-YmMax) - b) THEN ErrAny ELSE Ok(a + b)
OrdRes(c, eq) == Ok(<<c, B(eq), B(eq), OpsOf(c)>>) \* same-type: cmp, ==, equal hashes (only judged when equal), operators
POrdRes(c, eq) == Ok(<<Some(c), B(eq), OpsOf(c)>>)
One(S) == CHOOSE v \in S : TRUE

\* the day-valued / instant-valued candidates of truncation and rounding
DaySet(op, n, u)  == IF op = "D.trunc" THEN TruncDateSet(u, n) ELSE RoundDateSet(u, n)
InstSet(op, x, u) == IF op \in {"TS.trunc", "OD.trunc"} THEN {TruncInst(u, x)} ELSE RoundInstSet(u, x)

Determinate(op, a) ==
  CASE op \in {"D.trunc", "D.round"} -> Cardinality(DaySet(op, a[1], a[2])) = 1
    [] op \in {"TS.trunc", "TS.round", "OD.trunc", "OD.round"} -> Cardinality(InstSet(op, a[1], a[2])) = 1
    [] OTHER -> TRUE

Fun(op, a) ==
  CASE op = "D.add_days" -> IF a[2] > DateMax - DateMin \/ a[2] < DateMin - DateMax THEN ErrAny ELSE DateRes(a[1] + a[2])
    [] op = "D.sub_days" -> IF a[2] > DateMax - DateMin \/ a[2] < DateMin - DateMax THEN ErrAny ELSE DateRes(a[1] - a[2])
    [] op = "D.sub_date" -> Ok(a[1] - a[2])
    [] op \in {"D.and_time", "D.add_time", "TS.new"} -> Ok(<<a[1], a[2][1], a[2][2]>>)
    [] op = "D.sub_time" -> TsRes(MRSub(DateAsTs(a[1]), TimeAsDt(a[2])))
    [] op = "D.to_ts" -> Ok(DateAsTs(a[1]))
    [] op = "D.last_day_of_month" -> Ok(LastDayOfMonth(a[1]))
    [] op = "D.days" -> Ok(a[1])
    [] op = "D.extract" -> LET c == CivilFromDays(a[1]) IN Ok(<<c[1], c[2], c[3]>>)
    [] op = "D.day_of_week" -> Ok(Dow(a[1]))
    [] op = "D.add_interval_ym" -> MonthsRes(a[1], a[2], 0, 0)
    [] op = "D.sub_interval_ym" -> MonthsRes(a[1], 0 - a[2], 0, 0)
    [] op = "D.add_interval_dt" -> TsRes(MRAdd(DateAsTs(a[1]), a[2]))
    [] op = "D.sub_interval_dt" -> TsRes(MRSub(DateAsTs(a[1]), a[2]))
    [] op = "D.sub_timestamp" -> Ok(MRSub(DateAsTs(a[1]), a[2]))
    [] op \in {"D.trunc", "D.round"} -> DateRes(One(DaySet(op, a[1], a[2])))
    [] op = "D.ord" -> OrdRes(CmpInt(a[1], a[2]), a[1] = a[2])
    [] op \in {"D.ord_ts", "D.ord_od"} -> POrdRes(MRCmp(DateAsTs(a[1]), a[2]), DateAsTs(a[1]) = a[2])
    (* Time *)
    [] op = "T.sub_time" -> Ok(MRSub(TimeAsDt(a[1]), TimeAsDt(a[2])))
    [] op = "T.ord" -> OrdRes(MRCmp(TimeAsDt(a[1]), TimeAsDt(a[2])), a[1] = a[2])
    [] op = "T.add_interval_dt" -> LET x == MRAdd(TimeAsDt(a[1]), a[2]) IN Ok(<<x[2], x[3]>>)
    [] op = "T.sub_interval_dt" -> LET x == MRSub(TimeAsDt(a[1]), a[2]) IN Ok(<<x[2], x[3]>>)
    [] op = "T.ord_dt" -> POrdRes(MRCmp(TimeAsDt(a[1]), a[2]), TimeAsDt(a[1]) = a[2])
    [] op = "T.usecs" -> Ok(TimeAsDt(a[1]))
    [] op = "T.extract" -> LET h == Hms(a[1][1]) IN Ok(<<h[1], h[2], h[3], a[1][2]>>)
    [] op \in {"T.from_ts", "T.from_od", "OD.to_time"} -> Ok(<<a[1][2], a[1][3]>>)
    [] op = "T.from_dt" -> LET m == DtSignMag(a[1]) IN Ok(<<m[3], m[4]>>)
    (* Timestamp *)
    [] op \in {"TS.extract", "TS.usecs", "OD.usecs", "OD.extract", "OD.to_ts", "DT.usecs"} -> Ok(a[1])
    [] op = "TS.last_day_of_month" -> Ok(<<LastDayOfMonth(a[1][1]), a[1][2], a[1][3]>>)
    [] op = "TS.add_interval_dt" -> TsRes(MRAdd(a[1], a[2]))
    [] op = "TS.sub_interval_dt" -> TsRes(MRSub(a[1], a[2]))
    [] op \in {"TS.add_time", "OD.add_time"} -> TsRes(MRAdd(a[1], TimeAsDt(a[2])))
    [] op \in {"TS.sub_time", "OD.sub_time"} -> TsRes(MRSub(a[1], TimeAsDt(a[2])))
    [] op = "TS.add_interval_ym" -> MonthsRes(a[1][1], a[2], a[1][2], a[1][3])
    [] op = "TS.sub_interval_ym" -> MonthsRes(a[1][1], 0 - a[2], a[1][2], a[1][3])
    [] op = "TS.sub_date" -> Ok(MRSub(a[1], DateAsTs(a[2])))
    [] op \in {"TS.sub_timestamp", "TS.oracle_sub_date", "OD.sub_date", "OD.sub_timestamp"} -> Ok(MRSub(a[1], a[2]))
    [] op \in {"TS.ord", "OD.ord", "DT.ord"} -> OrdRes(MRCmp(a[1], a[2]), a[1] = a[2])
    [] op \in {"TS.ord_d", "OD.ord_d"} -> POrdRes(MRCmp(a[1], DateAsTs(a[2])), a[1] = DateAsTs(a[2]))
    [] op \in {"TS.ord_od", "OD.ord_ts"} -> POrdRes(MRCmp(a[1], a[2]), a[1] = a[2])
    [] op \in {"TS.trunc", "TS.round", "OD.trunc", "OD.round"} -> TsRes(One(InstSet(op, a[1], a[2])))
    (* IntervalYM *)
    [] op = "YM.add_interval_ym" -> YmSum(a[1], a[2])
    [] op = "YM.sub_interval_ym" -> YmSum(a[1], 0 - a[2])
    [] op = "YM.ord" -> OrdRes(CmpInt(a[1], a[2]), a[1] = a[2])
    [] op = "YM.neg" -> Ok(0 - a[1])
    [] op = "YM.months" -> Ok(a[1])
    [] op = "YM.extract" -> Ok(<<IF a[1] < 0 THEN -1 ELSE 1, AbsI(a[1]) \div 12, AbsI(a[1]) % 12>>)
    (* IntervalDT *)
    [] op = "DT.add_interval_dt" -> DtRes(MRAdd(a[1], a[2]))
    [] op = "DT.sub_interval_dt" -> DtRes(MRSub(a[1], a[2]))
    [] op = "DT.sub_time" -> DtRes(MRSub(a[1], TimeAsDt(a[2])))
    [] op = "DT.ord_t" -> POrdRes(MRCmp(a[1], TimeAsDt(a[2])), a[1] = TimeAsDt(a[2]))
    [] op = "DT.neg" -> Ok(MRNeg(a[1]))
    [] op = "DT.extract" -> LET m == DtSignMag(a[1])  h == Hms(m[3]) IN Ok(<<m[1], m[2], h[1], h[2], h[3], m[4]>>)
    [] op = "DT.from_time" -> Ok(TimeAsDt(a[1]))
    (* OracleDate: whole seconds, flooring *)
    [] op = "OD.new" -> Ok(<<a[1], a[2][1], 0>>)
    [] op = "OD.from_ts" -> Ok(Floor1(a[1]))
    [] op = "OD.last_day_of_month" -> Ok(<<LastDayOfMonth(a[1][1]), a[1][2], 0>>)
    [] op = "OD.add_interval_dt" -> OdFloorRes(MRAdd(a[1], a[2]))
    [] op = "OD.sub_interval_dt" -> OdFloorRes(MRSub(a[1], a[2]))
    [] op = "OD.add_interval_ym" -> MonthsRes(a[1][1], a[2], a[1][2], 0)
    [] op = "OD.sub_interval_ym" -> MonthsRes(a[1][1], 0 - a[2], a[1][2], 0)

(* ------------------------------ the machine ----------------------------- *)
Lit(ty) == CASE ty = "D" -> LitD [] ty = "T" -> LitT [] ty = "TS" -> LitTS [] ty = "YM" -> LitYM
             [] ty = "DT" -> LitDT [] ty = "OD" -> LitOD [] ty = "I" -> LitI [] ty = "U" -> LitU
Operands(ty) == IF ty \in {"I", "U"} THEN Lit(ty) ELSE {mregs[RegIdx(ty)]} \cup Lit(ty)
ArgSets(tys) == IF Len(tys) = 1 THEN {<<x>> : x \in Operands(tys[1])}
                ELSE {<<x, y>> : x \in Operands(tys[1]), y \in Operands(tys[2])}

Init == /\ mregs = InitRegs /\ mlast = <<>> /\ mprev = <<>> /\ mhist = <<>> /\ mdepth = 0

StepWith(op, a) ==
  LET r == Fun(op, a)  ty == ResType(op) IN
  /\ mregs' = IF r[1] = 0 /\ ty # "-" THEN [mregs EXCEPT ![RegIdx(ty)] = r[2]] ELSE mregs
  /\ mlast' = <<op, a, r>>
  /\ mprev' = mlast
  /\ mhist' = IF KeepHist THEN Append(mhist, <<op, a, r>>) ELSE mhist
  /\ mdepth' = mdepth + 1
Skip == mdepth' = mdepth + 1 /\ UNCHANGED <<mregs, mlast, mprev, mhist>>

\* breadth-first: every enabled call with every operand combination
Next == mdepth < MaxDepth /\ \E op \in OpNames : \E a \in ArgSets(ArgTys(op)) : Determinate(op, a) /\ StepWith(op, a)
Spec == Init /\ [][Next]_mvars

\* simulation: ONE randomly drawn call per step (TLC's RandomElement), so that `-simulate` walks long behaviours
\* without generating every sibling state; a draw whose result is not determinate is skipped
NextRnd == mdepth < MaxDepth /\
           \E op \in {RandomElement(OpNames)} :          \* bound once (a LET would draw again at every use)
           \E a \in {RandomElement(ArgSets(ArgTys(op)))} :
              IF Determinate(op, a) THEN StepWith(op, a) ELSE Skip
SpecRnd == Init /\ [][NextRnd]_mvars

(* ------------------------------ invariants ------------------------------ *)
\* C02 (and C16's whole second): closure of the ranges under every sequence of calls
RegsInRange == \A j \in 1..6 : InRangeOf(RegTypes[j], mregs[j])
\* the functional formulation is a transition the result relation allows
Refines == mlast = <<>> \/ OpOK(mlast[1], mlast[2], mlast[3])
\* two-step laws: an operation followed by its inverse with the same operand restores the value
Inverse(op) ==
  CASE op = "D.add_days" -> "D.sub_days" [] op = "D.sub_days" -> "D.add_days"
    [] op = "TS.add_interval_dt" -> "TS.sub_interval_dt" [] op = "TS.sub_interval_dt" -> "TS.add_interval_dt"
    [] op = "TS.add_time" -> "TS.sub_time" [] op = "TS.sub_time" -> "TS.add_time"
    [] op = "T.add_interval_dt" -> "T.sub_interval_dt" [] op = "T.sub_interval_dt" -> "T.add_interval_dt"
    [] op = "DT.add_interval_dt" -> "DT.sub_interval_dt" [] op = "DT.sub_interval_dt" -> "DT.add_interval_dt"
    [] op = "YM.add_interval_ym" -> "YM.sub_interval_ym" [] op = "YM.sub_interval_ym" -> "YM.add_interval_ym"
    [] op = "TS.add_interval_ym" -> "TS.sub_interval_ym" [] op = "TS.sub_interval_ym" -> "TS.add_interval_ym"
    [] op = "YM.neg" -> "YM.neg" [] op = "DT.neg" -> "DT.neg"
    [] OTHER -> "-"
StepLaws ==
  (mprev # <<>> /\ mlast # <<>> /\ mlast[1] = Inverse(mprev[1]) /\ mprev[3][1] = 0 /\ mlast[3][1] = 0
     /\ mlast[2][1] = mprev[3][2]                                   \* applied to the value just produced
     /\ (Len(mprev[2]) = 2 => mlast[2][2] = mprev[2][2]))            \* with the same second operand
  => mlast[3][2] = mprev[2][1]                                      \* gives back the value started from
\* an idempotence law: truncating twice is truncating once
TruncIdem ==
  (mprev # <<>> /\ mlast # <<>> /\ mlast[1] = mprev[1] /\ mlast[1] \in {"D.trunc", "TS.trunc", "OD.trunc"}
     /\ mprev[3][1] = 0 /\ mlast[2][1] = mprev[3][2] /\ mlast[2][2] = mprev[2][2])
  => mlast[3] = mprev[3]

(* ------------------------------- emission -------------------------------- *)
EmitStep == mlast = <<>> \/ PrintT(<<"GEN", mlast[1], mlast[2], mlast[3]>>)
EmitHist == mdepth < MaxDepth \/ PrintT(<<"GEN", mhist>>)
=============================================================================
