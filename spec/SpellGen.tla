------------------------------ MODULE SpellGen ------------------------------
(***************************************************************************)
(* spec -> impl generator for parsing (C05, C06, C18).                     *)
(*                                                                         *)
(* Cases (a constant supplied by the orchestrator: input selection only)   *)
(* is a sequence of <<type, picture, value, clock>>.  For every case TLC   *)
(* emits one GEN line per lenient STYLE with the text Spell.tla writes and *)
(* the value Denote says it denotes under that clock, and one GEN line per *)
(* applicable PERTURBATION (one component pushed out of its domain, a      *)
(* repeated / output-only / inapplicable code, trailing garbage) whose     *)
(* expected outcome is an error.  The harness sets the clock, parses the   *)
(* text with the picture and must observe exactly that outcome.            *)
(*                                                                         *)
(* TLC checks on the way (A-level, C06): for a lossless picture the        *)
(* renderer's output IS the canonical spelling and denotes the value.      *)
(***************************************************************************)
EXTENDS Spell, TLC

CONSTANT Cases

VARIABLES caseno, variant     \* which case, which style / perturbation
vars == <<caseno, variant>>

Canon == [num |-> "pad", gap |-> 0, ncase |-> 0, mm |-> "num", frac |-> <<"exact">>, cut |-> 0]
Styles == <<
  Canon,
  [Canon EXCEPT !.num = "bare"],
  [Canon EXCEPT !.num = "plus"],
  [Canon EXCEPT !.gap = 2],
  [Canon EXCEPT !.ncase = 1],
  [Canon EXCEPT !.ncase = 3],
  [Canon EXCEPT !.ncase = 4, !.num = "bare"],
  [Canon EXCEPT !.mm = "full", !.ncase = 3],
  [Canon EXCEPT !.mm = "abbr", !.ncase = 1],
  [Canon EXCEPT !.frac = <<"trim">>],
  [Canon EXCEPT !.frac = <<"extra", "4", "9", "9">>],
  [Canon EXCEPT !.frac = <<"extra", "5">>],
  [Canon EXCEPT !.frac = <<"extra", "5", "0", "1">>, !.gap = 1],
  [Canon EXCEPT !.frac = <<"extra", "9", "9", "9">>, !.num = "bare"],
  \* every value of the seventh fraction digit (rounded half-up: 0-4 down, 5-9 up)
  [Canon EXCEPT !.frac = <<"extra", "0">>], [Canon EXCEPT !.frac = <<"extra", "1">>], [Canon EXCEPT !.frac = <<"extra", "2">>],
  [Canon EXCEPT !.frac = <<"extra", "3">>], [Canon EXCEPT !.frac = <<"extra", "4">>], [Canon EXCEPT !.frac = <<"extra", "6">>],
  [Canon EXCEPT !.frac = <<"extra", "7">>], [Canon EXCEPT !.frac = <<"extra", "8">>], [Canon EXCEPT !.frac = <<"extra", "9">>],
  [Canon EXCEPT !.frac = <<"extra", "4", "9">>], [Canon EXCEPT !.frac = <<"extra", "5", "0">>, !.ncase = 3] >>
NStyles == Len(Styles)
\* cut styles: variant NStyles + k means "text stops before token k" (k = 1..40)
MaxCut == 40
Perturbs == <<
  [kind |-> "mm", val |-> 0], [kind |-> "mm", val |-> 13], [kind |-> "mm", val |-> 12],
  [kind |-> "dd", val |-> 0], [kind |-> "dd", val |-> 32], [kind |-> "dd", val |-> -1],   \* -1: last day of month + 1
  [kind |-> "hh24", val |-> 24], [kind |-> "hh12", val |-> 0], [kind |-> "hh12", val |-> 13],
  [kind |-> "mi", val |-> 60], [kind |-> "ss", val |-> 60],
  [kind |-> "ddd", val |-> 0], [kind |-> "ddd", val |-> 367], [kind |-> "ddd", val |-> 366], [kind |-> "ddd", val |-> -1],  \* -1: contradict month/day
  [kind |-> "wd", val |-> 0],
  [kind |-> "yearneg", val |-> 0], [kind |-> "mmneg", val |-> 0], [kind |-> "ddneg", val |-> 0], [kind |-> "hhneg", val |-> 0],
  [kind |-> "dup", val |-> 1], [kind |-> "dup", val |-> 2], [kind |-> "dup", val |-> 3], [kind |-> "dup", val |-> 4],
  [kind |-> "w", val |-> 0], [kind |-> "ww", val |-> 0], [kind |-> "inapp", val |-> 0],
  [kind |-> "garbage", val |-> 0], [kind |-> "garbage", val |-> 1],
  \* a value at the end of an interval's range with one lower field pushed above zero
  [kind |-> "over_us", val |-> 1], [kind |-> "over_ss", val |-> 1], [kind |-> "over_mm", val |-> 1],
  \* the same FIELD given twice through two different codes (24-hour and 12-hour hour): "a field code repeats"
  [kind |-> "dupalt", val |-> 0] >>
NPerturbs == Len(Perturbs)
NVariants == NStyles + MaxCut + NPerturbs

Init == caseno \in 1..Len(Cases) /\ variant \in 1..NVariants
Next == UNCHANGED vars
Spec == Init /\ [][Next]_vars

CaseTy(cs) == cs[1]
CasePic(cs) == cs[2]
CaseVal(cs) == cs[3]
CaseClock(cs) == cs[4]

\* year the text's date will be read in (needed to know whether 366 is a day of that year)
ReadYear(toks, f, c) ==
  IF HasKind(toks, Len(toks), {"year"}) THEN
     LET yt == FirstOf(toks, Len(toks), {"year"}) IN
     IF yt[2] = 4 THEN f.y ELSE c[1] - (c[1] % Pow10(yt[2])) + (f.y % Pow10(yt[2]))
  ELSE c[1]
MonthOfRead(toks, f, c) == IF HasKind(toks, Len(toks), {"mm", "mon", "month"}) THEN f.m
                           ELSE IF HasKind(toks, Len(toks), {"ddd"}) THEN f.m ELSE c[2]

\* a field token already in the picture (to repeat it), canonical spelling of a token
FieldKinds == {"year", "mm", "mon", "month", "dd", "ddd", "hh24", "hh12", "mi", "ss", "ff", "day", "dy", "d", "ampm"}
UnlexTok(tok) ==
  CASE tok[1] = "year" -> [i \in 1..tok[2] |-> "Y"] [] tok[1] = "mm" -> Chars("MM") [] tok[1] = "mon" -> Chars("MON")
    [] tok[1] = "month" -> Chars("MONTH") [] tok[1] = "dd" -> Chars("DD") [] tok[1] = "ddd" -> Chars("DDD")
    [] tok[1] = "hh24" -> Chars("HH24") [] tok[1] = "hh12" -> Chars("HH12") [] tok[1] = "mi" -> Chars("MI")
    [] tok[1] = "ss" -> Chars("SS") [] tok[1] = "ff" -> Chars("FF") [] tok[1] = "day" -> Chars("DAY")
    [] tok[1] = "dy" -> Chars("DY") [] tok[1] = "d" -> Chars("D") [] tok[1] = "ampm" -> Chars("AM")
    [] tok[1] = "w" -> Chars("W") [] tok[1] = "ww" -> Chars("WW")
\* a token that does not apply to the type
InappTok(ty) == CASE ty = "D" -> <<"hh24", 0>> [] ty = "T" -> <<"year", 4>> [] ty = "TS" -> <<"w", 0>>
                  [] ty = "OD" -> <<"ff", 0>> [] ty = "YM" -> <<"dd", 0>> [] ty = "DT" -> <<"mm", 0>>

\* the perturbation applies to this case; <<picture, text>> it produces (all expected to be rejected)
PerturbOut(cs, pt) ==
  LET ty == CaseTy(cs)  pic == CasePic(cs)  v == CaseVal(cs)  c == CaseClock(cs)
      toks == Lex(pic)  f == Fields(ty, v)  n == Len(toks)
      has(kinds) == HasKind(toks, n, kinds)
      base(ov) == SpellText(toks, ty, v, Canon, ov)
      ry == ReadYear(toks, f, c)
      \* the text's date is the value's own date (4-digit year written): only then do the
      \* value's weekday / day-of-year describe the date the text will be read as
      ownDate == \E j \in 1..n : toks[j] = <<"year", 4>>
      none == <<>>
  IN
  CASE pt.kind = "mm" -> IF has({"mm"}) /\ ((HasDate(ty) /\ pt.val # 12) \/ (ty = "YM" /\ pt.val >= 12)) THEN <<pic, base(pt)>> ELSE none
    [] pt.kind = "dd" -> IF has({"dd"}) /\ HasDate(ty) /\ ry >= 1 /\ ry <= 9999 THEN
                            LET val == IF pt.val = -1 THEN MonthLen(ry, MonthOfRead(toks, f, c)) + 1 ELSE pt.val IN
                            IF val <= 99 THEN <<pic, base([kind |-> "dd", val |-> val])>> ELSE none
                         ELSE none
    [] pt.kind = "hh24" -> IF has({"hh24"}) THEN <<pic, base(pt)>> ELSE none
    [] pt.kind = "hh12" -> IF has({"hh12"}) THEN <<pic, base(pt)>> ELSE none
    [] pt.kind = "mi" -> IF has({"mi"}) THEN <<pic, base(pt)>> ELSE none
    [] pt.kind = "ss" -> IF has({"ss"}) THEN <<pic, base(pt)>> ELSE none
    [] pt.kind = "ddd" -> IF ~(has({"ddd"}) /\ HasDate(ty) /\ ry >= 1 /\ ry <= 9999) THEN none
                          ELSE IF pt.val = 366 THEN (IF IsLeap(ry) THEN none ELSE <<pic, base(pt)>>)
                          ELSE IF pt.val = -1 THEN
                               (IF ~ownDate THEN none
                                ELSE IF has({"mm", "mon", "month"}) THEN
                                   <<pic, base([kind |-> "ddd", val |-> IF f.doy + 31 <= YearLen(ry) THEN f.doy + 31 ELSE f.doy - 31])>>
                                ELSE IF has({"dd"}) THEN
                                   <<pic, base([kind |-> "ddd", val |-> IF f.doy + 1 <= YearLen(ry) THEN f.doy + 1 ELSE f.doy - 1])>>
                                ELSE none)
                          ELSE <<pic, base(pt)>>
    [] pt.kind = "wd" -> IF has({"day", "dy", "d"}) /\ HasDate(ty) /\ ownDate /\ (has({"ddd"}) \/ (has({"mm", "mon", "month"}) /\ has({"dd"}))) THEN <<pic, base([kind |-> "wd", val |-> (f.wd % 7) + 1])>> ELSE none
    [] pt.kind = "yearneg" -> IF has({"year"}) /\ HasDate(ty) THEN <<pic, base(pt)>> ELSE none
    [] pt.kind = "mmneg" -> IF has({"mm"}) /\ HasDate(ty) THEN <<pic, base(pt)>> ELSE none
    [] pt.kind = "ddneg" -> IF has({"dd"}) /\ HasDate(ty) THEN <<pic, base(pt)>> ELSE none
    [] pt.kind = "hhneg" -> IF has({"hh24"}) THEN <<pic, base(pt)>> ELSE none
    [] pt.kind = "dup" -> IF has(FieldKinds) /\ n < MaxFields - 1 THEN
                             \* repeat the val-th field code of the picture (the last one if there are fewer)
                             LET idx == {j \in 1..n : toks[j][1] \in FieldKinds}
                                 rank(j) == Cardinality({q \in idx : q <= j})
                                 want == IF pt.val > Cardinality(idx) THEN Cardinality(idx) ELSE pt.val
                                 tok == toks[CHOOSE j \in idx : rank(j) = want]
                                 extra == SpellToken(tok, ty, f, Canon, NoOv) IN
                             IF extra = NA \/ base(NoOv) = NA THEN none
                             ELSE <<pic \o <<" ">> \o UnlexTok(tok), base(NoOv) \o <<" ">> \o extra>>
                          ELSE none
    [] pt.kind = "dupalt" -> IF n < MaxFields - 1 /\ base(NoOv) # NA /\ ty \in {"T", "TS", "OD"} /\ has({"hh24", "hh12"}) THEN
                             LET alt == IF has({"hh24"}) THEN <<"hh12", 0>> ELSE <<"hh24", 0>>
                                 extra == SpellToken(alt, ty, f, Canon, NoOv) IN
                             IF extra = NA THEN none
                             ELSE <<pic \o <<" ">> \o UnlexTok(alt), base(NoOv) \o <<" ">> \o extra>>
                          ELSE none
    [] pt.kind \in {"w", "ww"} -> IF n < MaxFields - 1 /\ base(NoOv) # NA THEN
                             <<pic \o <<" ">> \o UnlexTok(<<pt.kind, 0>>), base(NoOv) \o <<" ", "0", "1">>>> ELSE none
    [] pt.kind = "inapp" -> IF n < MaxFields - 1 /\ base(NoOv) # NA THEN
                             <<pic \o <<" ">> \o UnlexTok(InappTok(ty)), base(NoOv) \o <<" ", "0", "1">>>> ELSE none
    [] pt.kind = "over_us" -> IF ty = "DT" /\ has({"ff"}) /\ has({"dd"}) /\ f.d = DtMaxDays /\ FirstOf(toks, n, {"ff"})[2] \in {0, 6, 7, 8, 9} THEN <<pic, base([kind |-> "us", val |-> 1])>> ELSE none
    [] pt.kind = "over_ss" -> IF ty = "DT" /\ has({"ss"}) /\ has({"dd"}) /\ f.d = DtMaxDays THEN <<pic, base([kind |-> "ss", val |-> 1])>> ELSE none
    [] pt.kind = "over_mm" -> IF ty = "YM" /\ has({"mm"}) /\ has({"year"}) /\ f.y = 178000000 THEN <<pic, base([kind |-> "mm", val |-> 1])>> ELSE none
    [] pt.kind = "garbage" -> IF base(NoOv) # NA THEN <<pic, base(NoOv) \o (IF pt.val = 0 THEN <<"x">> ELSE <<" ", "7">>)>> ELSE none

\* (A) for lossless pictures the renderer's text is the canonical spelling and denotes the value
RoundTripSpec ==
  LET cs == Cases[caseno]  ty == CaseTy(cs)  toks == Lex(CasePic(cs))  v == CaseVal(cs) IN
  (variant = 1 /\ ~IsInvalid(toks) /\ Lossless(toks, ty)) =>
     LET r == RenderTokens(toks, ty, v)
         s == SpellText(toks, ty, v, Canon, NoOv)
         d == Denote(toks, ty, Fields(ty, v), Canon, CaseClock(cs))
     IN (r = <<0, s>> /\ d = <<0, v>>) \/ (PrintT(<<"RTFAIL", ty, CasePic(cs), v, r, s, d>>) /\ FALSE)

Emit ==
  LET cs == Cases[caseno]  ty == CaseTy(cs)  pic == CasePic(cs)  v == CaseVal(cs)  c == CaseClock(cs)
      toks == Lex(pic)
  IN
  IF IsInvalid(toks) \/ Len(toks) > MaxFields THEN TRUE
  ELSE IF variant <= NStyles + MaxCut THEN
     LET st == IF variant <= NStyles THEN Styles[variant] ELSE [Canon EXCEPT !.cut = variant - NStyles]
         text == SpellText(toks, ty, v, st, NoOv)
     IN IF text = NA THEN TRUE
        ELSE PrintT(<<"GEN", caseno, variant, ty, pic, text, c, Denote(toks, ty, Fields(ty, v), st, c),
                      IF Lossless(toks, ty) THEN 1 ELSE 0>>)
  ELSE
     LET out == PerturbOut(cs, Perturbs[variant - NStyles - MaxCut]) IN
     IF out = <<>> \/ out[2] = NA THEN TRUE
     ELSE PrintT(<<"GEN", caseno, variant, ty, out[1], out[2], c, <<1, 0>>, 0>>)
=============================================================================
