---------------------------- MODULE SessionTrace ----------------------------
(***************************************************************************)
(* The library as a register machine, validated against recorded sessions  *)
(* (impl -> spec, chain form).                                              *)
(*                                                                         *)
(* State: one register per value type (Date, Time, Timestamp, IntervalYM,  *)
(* IntervalDT, OracleDate).  Every step is one public call whose value     *)
(* arguments are taken from the registers (or from the driver's pool) and  *)
(* whose Ok result is stored back into the register of its type - values   *)
(* produced by one call flow into the next.  The trace starts with an      *)
(* S.init event holding the initial registers; every later event records   *)
(* op, a, r, the argument types `tys`, which argument positions were read  *)
(* from registers (`use`) and the register written (`put`, "-" for none).   *)
(*                                                                         *)
(* Each consumed event must (1) read what the specification's registers    *)
(* hold (binding), (2) be a transition Ops.tla allows, and (3) leave every *)
(* register inside its type's range - TypeOK is C02 and, through           *)
(* OdInRange, the whole-second clause of C16, evaluated after every step.  *)
(***************************************************************************)
EXTENDS Ops, Json, IOUtils

Rec == TLCEval(ndJsonDeserialize(IOEnv.TRACE))

RegTypes == {"D", "T", "TS", "YM", "DT", "OD"}
VARIABLES sescursor,   \* index of the event consumed last
          registers,   \* [RegTypes -> value]
          regsbefore   \* the registers before that event (to judge its binding)
sesvars == <<sescursor, registers, regsbefore>>

InitRegs == LET a == Rec[1].a IN
  [ty \in RegTypes |-> CASE ty = "D" -> a[1] [] ty = "T" -> a[2] [] ty = "TS" -> a[3]
                         [] ty = "YM" -> a[4] [] ty = "DT" -> a[5] [] ty = "OD" -> a[6]]
Init == sescursor = 1 /\ registers = InitRegs /\ regsbefore = InitRegs

Next == /\ sescursor < Len(Rec)
        /\ LET e == Rec[sescursor + 1] IN
           /\ sescursor' = sescursor + 1
           /\ regsbefore' = registers
           /\ registers' = IF e.put # "-" /\ e.r[1] = 0 THEN [registers EXCEPT ![e.put] = e.r[2]] ELSE registers
Spec == Init /\ [][Next]_sesvars

Bound(e) == \A q \in 1..Len(e.use) : e.a[e.use[q]] = regsbefore[e.tys[e.use[q]]]
TypeOK == \A ty \in RegTypes : InRangeOf(ty, registers[ty])

Problems(e) ==
  (IF Bound(e) THEN {} ELSE {"binding"}) \cup
  (IF NoPanicX(e.op, e.r) THEN {} ELSE {"panic"}) \cup
  (IF ~NoPanicX(e.op, e.r) \/ OpOK(e.op, e.a, e.r) THEN {} ELSE {"result"}) \cup
  (IF TypeOK /\ (~NoPanicX(e.op, e.r) \/ ValueInRangeX(e.op, e.a, e.r)) THEN {} ELSE {"range"})

Judge == sescursor = 1 \/
         LET e == Rec[sescursor]  bad == Problems(e) IN
         bad = {} \/ PrintT(<<"MISMATCH", sescursor, e.op, bad>>)

Accepted ==
  LET st == TLCGet("stats") IN
  IF st.diameter = Len(Rec) THEN PrintT(<<"ACCEPTED", Len(Rec), st.distinct, st.generated>>)
  ELSE PrintT(<<"REJECTED", Len(Rec), st.diameter, st.generated>>) /\ FALSE
=============================================================================
