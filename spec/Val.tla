------------------------------- MODULE Val ---------------------------------
(***************************************************************************)
(* Abstract values and their exact arithmetic.                             *)
(*                                                                         *)
(* TLC integers are 32-bit, microsecond counts need 64 bits, so an instant *)
(* or a day-time interval is held in MIXED RADIX, floor form:              *)
(*      <<D, s, u>>   D days (may be negative), s in 0..86399, u in 0..999999 *)
(* meaning D*86400000000 + s*1000000 + u microseconds.  "Carry between     *)
(* days, seconds and microseconds" is exactly what C07/C08/C12/C13/C16     *)
(* talk about; writing it here in mixed radix makes the specification      *)
(* independent of the implementation's single-i64 representation.          *)
(*   Date        n            days since 1970-01-01                         *)
(*   Time        <<s, u>>                                                   *)
(*   Timestamp   <<n, s, u>>                                                *)
(*   OracleDate  <<n, s, 0>>                                                *)
(*   IntervalYM  k            months                                        *)
(*   IntervalDT  <<D, s, u>>  floor form (D < 0 for negative intervals)     *)
(***************************************************************************)
EXTENDS Cal

SecPerDay == 86400
UsPerSec  == 1000000

YmMax == 2136000000            \* 178000000 years * 12
DtMaxDays == 100000000

(* ------------------------------ ranges --------------------------------- *)
IsTime(t)  == t[1] \in 0..(SecPerDay - 1) /\ t[2] \in 0..(UsPerSec - 1)
IsTod(x)   == x[2] \in 0..(SecPerDay - 1) /\ x[3] \in 0..(UsPerSec - 1)   \* normal form
TsInRange(x) == IsTod(x) /\ InDateRange(x[1])
OdInRange(x) == TsInRange(x) /\ x[3] = 0
YmInRange(k) == -YmMax <= k /\ k <= YmMax
DtInRange(x) == /\ IsTod(x)
                /\ x[1] >= -DtMaxDays
                /\ (x[1] < DtMaxDays \/ (x[1] = DtMaxDays /\ x[2] = 0 /\ x[3] = 0))

TsMin == <<DateMin, 0, 0>>
TsMax == <<DateMax, 86399, 999999>>
OdMax == <<DateMax, 86399, 0>>
DtMax == <<DtMaxDays, 0, 0>>
DtMin == <<-DtMaxDays, 0, 0>>

(* --------------------------- exact arithmetic --------------------------- *)
\* normal form of an arbitrary (days, seconds, microseconds) combination;
\* \div and % are floor division / non-negative remainder in TLA+
Norm(x) ==
  LET s2 == x[2] + (x[3] \div UsPerSec)
      u2 == x[3] % UsPerSec
  IN  <<x[1] + (s2 \div SecPerDay), s2 % SecPerDay, u2>>

MRAdd(a, b) == Norm(<<a[1] + b[1], a[2] + b[2], a[3] + b[3]>>)
MRNeg(a)    == Norm(<<-a[1], -a[2], -a[3]>>)
MRSub(a, b) == Norm(<<a[1] - b[1], a[2] - b[2], a[3] - b[3]>>)
\* -1 / 0 / 1
Sgn(i) == IF i < 0 THEN -1 ELSE IF i > 0 THEN 1 ELSE 0
MRCmp(a, b) == IF a[1] # b[1] THEN Sgn(a[1] - b[1])
               ELSE IF a[2] # b[2] THEN Sgn(a[2] - b[2])
               ELSE Sgn(a[3] - b[3])
MRLe(a, b) == MRCmp(a, b) <= 0
MRZero == <<0, 0, 0>>
MRIsNeg(a) == a[1] < 0

TimeAsDt(t) == <<0, t[1], t[2]>>
DateAsTs(n) == <<n, 0, 0>>

\* sign-magnitude view of an interval: <<sign, days, seconds, microseconds>>
DtSignMag(x) == IF MRIsNeg(x) THEN LET m == MRNeg(x) IN <<-1, m[1], m[2], m[3]>>
                ELSE <<1, x[1], x[2], x[3]>>

(* ------------------------------ the clock ------------------------------- *)
Hms(s) == <<s \div 3600, (s % 3600) \div 60, s % 60>>
SodOf(h, mi, s) == h * 3600 + mi * 60 + s
\* verdict of an (hour, minute, second, microsecond) tuple: 0 = valid, else kind
HmsVerdict(h, mi, s, u) ==
  IF h >= 24 THEN ETimeOutOfRange
  ELSE IF mi >= 60 THEN EInvalidMinute
  ELSE IF s >= 60 THEN EInvalidSecond
  ELSE IF u > 999999 THEN EInvalidFraction
  ELSE 0
Hour12(h) == IF h = 0 THEN 12 ELSE IF h <= 12 THEN h ELSE h - 12

(* results as logged by the harness: <<0, v>> ok, <<1, kind>> error,
   <<2, 0>> panic, <<3, 0>> None *)
IsOk(r, v)   == r[1] = 0 /\ r[2] = v
IsErr(r)     == r[1] = 1
IsErrK(r, k) == r[1] = 1 /\ r[2] = k
IsNone(r)    == r[1] = 3
=============================================================================
