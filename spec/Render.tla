------------------------------ MODULE Render --------------------------------
(***************************************************************************)
(* Formatting (C04): the text of a value under a token sequence is the     *)
(* concatenation, in picture order, of each token's rendering; a token     *)
(* that does not apply to the value's type yields an error.  Texts are     *)
(* sequences of one-character strings.  The English names are typed from   *)
(* the language, not copied from the implementation.                        *)
(***************************************************************************)
EXTENDS Pic, Units, Val

DigitChars == <<"0", "1", "2", "3", "4", "5", "6", "7", "8", "9">>
RECURSIVE Digits(_)
Digits(v) == IF v < 10 THEN <<DigitChars[v + 1]>> ELSE Digits(v \div 10) \o <<DigitChars[(v % 10) + 1]>>
Zeros(n) == [i \in 1..n |-> "0"]
Pad(v, w) == LET ds == Digits(v) IN IF Len(ds) >= w THEN ds ELSE Zeros(w - Len(ds)) \o ds
Spaces(n) == [i \in 1..n |-> " "]
Pow10(n) == CASE n = 0 -> 1 [] n = 1 -> 10 [] n = 2 -> 100 [] n = 3 -> 1000 [] n = 4 -> 10000
              [] n = 5 -> 100000 [] n = 6 -> 1000000

LowerTab == [c \in {UpperLetters[k] : k \in 1..26} |-> LowerLetters[CHOOSE k \in 1..26 : UpperLetters[k] = c]]
LowerOf(c) == IF c \in DOMAIN LowerTab THEN LowerTab[c] ELSE c
MonthNames == <<"January", "February", "March", "April", "May", "June", "July", "August", "September",
                "October", "November", "December">>
DayNames == <<"Sunday", "Monday", "Tuesday", "Wednesday", "Thursday", "Friday", "Saturday">>   \* 1 = Sunday
\* style 1 UPPER, 2 Capitalised, 3 lower
Styled(word, style) ==
  CASE style = 1 -> [i \in 1..Len(word) |-> UpperOf(word[i])]
    [] style = 2 -> word
    [] style = 3 -> [i \in 1..Len(word) |-> LowerOf(word[i])]
MonthName(m, style) == Styled(Chars(MonthNames[m]), style)
MonthAbbr(m, style) == Styled(SubSeq(Chars(MonthNames[m]), 1, 3), style)
DayName(wd, style)  == Styled(Chars(DayNames[wd]), style)
DayAbbr(wd, style)  == Styled(SubSeq(Chars(DayNames[wd]), 1, 3), style)
AmPmWord(st, h) ==
  LET am == h < 12 IN
  CASE st = 1 -> IF am THEN Chars("AM") ELSE Chars("PM")
    [] st = 2 -> IF am THEN Chars("am") ELSE Chars("pm")
    [] st = 3 -> IF am THEN Chars("A.M.") ELSE Chars("P.M.")
    [] st = 4 -> IF am THEN Chars("a.m.") ELSE Chars("p.m.")

HasDate(ty) == ty \in {"D", "TS", "OD"}
HasTime(ty) == ty \in {"T", "TS", "OD", "DT"}
HasFrac(ty) == ty \in {"T", "TS", "DT"}

\* uniform field view of a value: [neg, y, m, d, wd, doy, days, h, mi, s, us]
\* (y, m for intervals are the magnitude's years / months; days for IntervalDT)
Fields(ty, v) ==
  CASE ty = "D"  -> LET f == Frame(v) IN
        [neg |-> FALSE, y |-> f.y, m |-> f.m, d |-> f.d, wd |-> f.wd, doy |-> f.doy, h |-> 0, mi |-> 0, s |-> 0, us |-> 0]
    [] ty \in {"TS", "OD"} -> LET f == Frame(v[1])  t == Hms(v[2]) IN
        [neg |-> FALSE, y |-> f.y, m |-> f.m, d |-> f.d, wd |-> f.wd, doy |-> f.doy, h |-> t[1], mi |-> t[2], s |-> t[3], us |-> v[3]]
    [] ty = "T"  -> LET t == Hms(v[1]) IN
        [neg |-> FALSE, y |-> 0, m |-> 0, d |-> 0, wd |-> 0, doy |-> 0, h |-> t[1], mi |-> t[2], s |-> t[3], us |-> v[2]]
    [] ty = "YM" -> LET a == IF v < 0 THEN 0 - v ELSE v IN
        [neg |-> v < 0, y |-> a \div 12, m |-> a % 12, d |-> 0, wd |-> 0, doy |-> 0, h |-> 0, mi |-> 0, s |-> 0, us |-> 0]
    [] ty = "DT" -> LET sm == DtSignMag(v)  t == Hms(sm[3]) IN
        [neg |-> sm[1] < 0, y |-> 0, m |-> 0, d |-> sm[2], wd |-> 0, doy |-> 0, h |-> t[1], mi |-> t[2], s |-> t[3], us |-> sm[4]]

\* rendering of one token: a text, or <<"#err">> if the token does not apply to the type
NA == <<"#err">>
TokenText(tok, ty, f) ==
  LET kind == tok[1]  p == tok[2] IN
  CASE kind = "blank" -> Spaces(p)
    [] kind = "lit"   -> <<p>>
    [] kind = "year"  -> IF HasDate(ty) THEN Pad(f.y % Pow10(p), p)
                         ELSE IF ty = "YM" THEN Pad(f.y, p) ELSE NA
    [] kind = "mm"    -> IF HasDate(ty) \/ ty = "YM" THEN Pad(f.m, 2) ELSE NA
    [] kind = "dd"    -> IF HasDate(ty) \/ ty = "DT" THEN Pad(f.d, 2) ELSE NA
    [] kind = "hh24"  -> IF HasTime(ty) THEN Pad(f.h, 2) ELSE NA
    [] kind = "hh12"  -> IF HasTime(ty) /\ ty # "DT" THEN Pad(Hour12(f.h), 2) ELSE NA
    [] kind = "mi"    -> IF HasTime(ty) THEN Pad(f.mi, 2) ELSE NA
    [] kind = "ss"    -> IF HasTime(ty) THEN Pad(f.s, 2) ELSE NA
    [] kind = "ff"    -> IF HasFrac(ty) THEN
                            LET pp == IF p = 0 THEN 6 ELSE p IN
                            IF pp <= 6 THEN Pad(f.us \div Pow10(6 - pp), pp)      \* truncated, never rounded
                            ELSE Pad(f.us, 6) \o Zeros(pp - 6)
                         ELSE NA
    [] kind = "ampm"  -> IF HasTime(ty) /\ ty # "DT" THEN AmPmWord(p, f.h) ELSE NA
    [] kind = "month" -> IF HasDate(ty) THEN MonthName(f.m, p) ELSE NA
    [] kind = "mon"   -> IF HasDate(ty) THEN MonthAbbr(f.m, p) ELSE NA
    [] kind = "day"   -> IF HasDate(ty) THEN DayName(f.wd, p) ELSE NA
    [] kind = "dy"    -> IF HasDate(ty) THEN DayAbbr(f.wd, p) ELSE NA
    [] kind = "d"     -> IF HasDate(ty) THEN <<DigitChars[f.wd + 1]>> ELSE NA       \* Sunday = 1
    [] kind = "ddd"   -> IF HasDate(ty) THEN Pad(f.doy, 3) ELSE NA
    [] kind = "w"     -> IF HasDate(ty) THEN Digits(((f.d - 1) \div 7) + 1) ELSE NA
    [] kind = "ww"    -> IF HasDate(ty) THEN Pad(((f.doy - 1) \div 7) + 1, 2) ELSE NA

RECURSIVE RenderFrom(_, _, _, _)
RenderFrom(toks, i, ty, f) ==
  IF i > Len(toks) THEN <<>>
  ELSE LET t == TokenText(toks[i], ty, f) IN
       IF t = NA THEN NA
       ELSE LET rest == RenderFrom(toks, i + 1, ty, f) IN
            IF rest = NA THEN NA ELSE t \o rest

\* <<0, text>> or <<1, EFormatError>>: intervals carry their sign once, in front
RenderTokens(toks, ty, v) ==
  LET f == Fields(ty, v)
      body == RenderFrom(toks, 1, ty, f)
      sign == IF ty \in {"YM", "DT"} THEN (IF f.neg THEN <<"-">> ELSE <<"+">>) ELSE <<>>
  IN IF body = NA THEN <<1, EFormatError>> ELSE <<0, sign \o body>>

\* formatting through a picture text: picture errors (C19) come first
FormatRes(pic, ty, v) ==
  LET toks == Lex(pic) IN
  IF IsInvalid(toks) \/ Len(toks) > MaxFields THEN <<1, EInvalidFormat>>
  ELSE RenderTokens(toks, ty, v)
=============================================================================
