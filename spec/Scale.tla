------------------------------ MODULE Scale ---------------------------------
(***************************************************************************)
(* Scaling by a double (C14) and fractional-day offsets (C08/C16), stated  *)
(* exactly over big integers.                                              *)
(*                                                                         *)
(* A double argument is logged by the harness as its exact decoding        *)
(*     F = <<cls, sg, mhi, mlo, e>>                                        *)
(*   cls 0: finite, value sg * (mhi * 2^27 + mlo) * 2^e  (mantissa < 2^53) *)
(*   cls 2: NaN      cls 3: +infinity      cls 4: -infinity                *)
(* so the REAL product / quotient of the operands is a rational N / Dn of  *)
(* big integers, and "computed to double precision, truncated toward zero" *)
(* can be judged by multiplication only - no floating point in the spec.   *)
(***************************************************************************)
EXTENDS Big, Integers, Sequences

FCls(F) == F[1]
FSg(F)  == F[2]
FExp(F) == F[5]
FMant(F) == BigAdd(BigMulPow2(BigFromInt(F[3]), 27), BigFromInt(F[4]))
FIsZero(F) == F[1] = 0 /\ F[3] = 0 /\ F[4] = 0
FIsNaN(F) == F[1] = 2
FIsInf(F) == F[1] \in {3, 4}
FSign(F) == IF F[1] = 3 THEN 1 ELSE IF F[1] = 4 THEN -1 ELSE F[2]

\* number of bits of a positive big integer
TopBits(d) == CHOOSE k \in 1..14 : d < 2^k /\ d >= 2^(k - 1)
BitLen(a) ==
  LET est == (((Len(a) - 1) * 132877) \div 10000) + TopBits(a[Len(a)]) IN
  CHOOSE k \in (est - 2)..(est + 2) : k >= 1 /\ BigLt(a, BigPow2(k)) /\ ~BigLt(a, BigPow2(k - 1))

P51  == BigPow2(51)
P51p == BigAdd(P51, <<1>>)
P51m == BigSub(P51, <<1>>)
P53  == BigPow2(53)

\* r = trunc(p') for some p' within relative 2^-51 of the real value N/Dn
\* (the property grants 2^-52; one extra bit absorbs the i64 -> f64 conversion
\* of the left operand), and exactly N/Dn when that is an integer below 2^53
\* and the left operand itself converts to a double exactly (xExact)
TruncBand(N, Dn, R, xExact) ==
  LET RD == BigMul(R, Dn)  R1D == BigMul(BigAdd(R, <<1>>), Dn) IN
  /\ BigLe(BigMul(RD, P51), BigMul(N, P51p))
  /\ BigLt(BigMul(N, P51m), BigMul(R1D, P51))
  /\ (xExact /\ BigLt(N, BigMul(P53, Dn)) /\ (RD = N \/ R1D = N)) => RD = N

\* the real value N/Dn certainly exceeds / certainly does not exceed max
\* even after a relative perturbation of 2^-51 and truncation
SurelyOut(N, Dn, max) == BigLe(BigMul(BigMul(BigAdd(max, <<1>>), Dn), P51), BigMul(N, P51m))
SurelyIn(N, Dn, max)  == BigLt(BigMul(N, P51p), BigMul(BigMul(BigAdd(max, <<1>>), Dn), P51))

\* magnitude of N/Dn relative to the overflow threshold 2^1024 of a double
\*  1: certainly infinite   -1: certainly finite   0: borderline
InfClass(N, Dn) ==
  IF BigIsZero(N) THEN -1 ELSE
  LET b == BitLen(N) - BitLen(Dn) IN      \* 2^(b-1) < N/Dn < 2^(b+1)
  IF b - 1 >= 1024 THEN 1 ELSE IF b + 1 <= 1023 THEN -1 ELSE 0

EInvalidNumberS == 4
ENumericOverflowS == 11
EDivideByZeroS == 12
EIntervalOutOfRangeS == 3

(* Judgement of  x * k  (isDiv = FALSE)  or  x / k  (isDiv = TRUE).
   xs : sign of x (-1, 0, 1)     X : |x| as a big integer
   F  : the double               max : largest magnitude of the result type
   res: logged result <<0, _>> | <<1, kind>>;  rs, R: sign and magnitude of an Ok result *)
ScaleOK(isDiv, xs, X, F, max, res, rs, R) ==
  LET ok   == res[1] = 0
      kind == res[2]
      errK(k) == res[1] = 1 /\ kind = k
  IN
  IF FIsNaN(F) THEN errK(EInvalidNumberS)
  ELSE IF isDiv /\ FIsZero(F) THEN
       \* division by (+/-)zero is reported as divide-by-zero whatever the dividend (also 0/0)
       errK(EDivideByZeroS)
  ELSE IF FIsInf(F) THEN
       IF isDiv THEN ok /\ BigIsZero(R)                        \* x / inf = 0
       ELSE IF xs = 0 THEN errK(EInvalidNumberS)              \* 0 * inf = NaN
       ELSE errK(ENumericOverflowS)
  ELSE
    LET M  == FMant(F)
        e  == FExp(F)
        \* real value = N / Dn  (big integers)
        N  == IF isDiv THEN (IF e < 0 THEN BigMulPow2(X, -e) ELSE X)
              ELSE (IF e >= 0 THEN BigMulPow2(BigMul(X, M), e) ELSE BigMul(X, M))
        Dn == IF isDiv THEN (IF e < 0 THEN M ELSE BigMulPow2(M, e))
              ELSE (IF e >= 0 THEN <<1>> ELSE BigPow2(-e))
        ic == InfClass(N, Dn)
        sr == xs * FSg(F)
    IN
    IF ok THEN
         /\ ic <= 0
         /\ ~SurelyOut(N, Dn, max)
         /\ TruncBand(N, Dn, R, BigLe(X, P53))
         /\ (BigIsZero(R) \/ rs = sr)
    ELSE \/ (errK(ENumericOverflowS) /\ ic >= 0)
         \/ (errK(EIntervalOutOfRangeS) /\ ic <= 0 /\ ~SurelyIn(N, Dn, max))

(* Fractional-day offsets: the real offset in microseconds is
   days * 86400000000 = M * 2^e * 86400000000 = N / Dn.  An offset of `off`
   microseconds (magnitude O, same sign) is "the offset rounded to the
   nearest microsecond" when |off - N/Dn| <= 1/2 (ties either way), again
   granting the double-precision computation a relative 2^-51. *)
OffsetND(F) ==
  LET M == BigMulSmall(BigMulSmall(BigMulSmall(FMant(F), 86400), 1000), 1000)
      e == FExp(F)
  IN IF e >= 0 THEN <<BigMulPow2(M, e), <<1>>>> ELSE <<M, BigPow2(-e)>>
\* O is N/Dn "rounded to the nearest multiple of unit" (unit = 1 microsecond or 1000000 = one second) as far
\* as IEEE double arithmetic can know: the product days * 86400000000 is rounded ONCE to a double fl(p), then
\* to an integer.  With b = number of bits of floor(p):
\*    b >= 53: fl(p) is an integer within 2^(b-54) of p, and the result is fl(p)      |r - p| <= 2^(b-54)
\*    b <  53: |fl(p) - p| <= 2^(b-54) < 1/2, then rounding to an integer adds 1/2       |r - p| <= 1/2 + 2^(b-54)
\* (ties either way).  For seconds the microsecond result is rounded once more: + 500000.
\*   2 * |O*unit*Dn - N|  <=  Dn * (u + 2^(b-53))   u = twice the rounding allowance of the integer stage(s)
NearestOK(N, Dn, O, unit) ==
  LET OD == BigMul(BigMulSmall(BigMulSmall(O, IF unit = 1 THEN 1 ELSE 1000), IF unit = 1 THEN 1 ELSE 1000), Dn)
      diff == IF BigLe(OD, N) THEN BigSub(N, OD) ELSE BigSub(OD, N)
      b == IF BigLt(N, Dn) THEN 0 ELSE BitLen(N) - BitLen(Dn) + 1          \* Dn is a power of two: exact
      \* microseconds: 1 (the rounding to an integer) unless fl(p) is an integer already; seconds: the result of
      \* the microsecond stage is rounded once more to a whole second: + 1000000
      u == IF unit = 1 THEN (IF b >= 53 THEN <<>> ELSE <<1>>)
           ELSE (IF b >= 53 THEN BigFromInt(1000000) ELSE BigFromInt(1000001))
  IN IF b >= 53
     THEN BigLe(BigMulSmall(diff, 2), BigMul(Dn, BigAdd(u, BigPow2(b - 53))))
     ELSE \* scale by 2^(53-b):  2*diff*2^(53-b) <= Dn * (unit*2^(53-b) + 1)
          BigLe(BigMulPow2(BigMulSmall(diff, 2), 53 - b), BigMul(Dn, BigAdd(BigMulPow2(u, 53 - b), <<1>>)))
=============================================================================
