SPECIFICATION Spec
INVARIANT Judge
POSTCONDITION Accepted
CHECK_DEADLOCK FALSE
