------------------------------- MODULE Ops ----------------------------------
(***************************************************************************)
(* Every safe public operation of the six value types as a RESULT RELATION *)
(*      OpOK(op, a, r)  ==  "r is a result the properties allow for the    *)
(*                           call op(a)"                                    *)
(* over abstract values (Val.tla).  Arguments and results are in the form  *)
(* the harness logs them: results of fallible calls are <<0, v>> (Ok),     *)
(* <<1, kind>> (Err), Option results <<0, v>> / <<3, 0>>; a panic is        *)
(* <<2, 0>> and is allowed by NO clause (C03).  Where the properties name  *)
(* the error kind (C01, C14) the clause names it; elsewhere any Err.       *)
(* Type prefixes: D Date, T Time, TS Timestamp, YM IntervalYM,             *)
(* DT IntervalDT, OD OracleDate.                                           *)
(***************************************************************************)
EXTENDS Units, Val, Scale, Spell, TLC

(* ------------------------- result shapes ------------------------------- *)
ResDate(r, n)  == IF InDateRange(n) THEN IsOk(r, n) ELSE IsErr(r)
ResTs(r, x)    == IF TsInRange(x) THEN IsOk(r, x) ELSE IsErr(r)
ResDt(r, x)    == IF DtInRange(x) THEN IsOk(r, x) ELSE IsErr(r)
ResOdFloor(r, x) == IF TsInRange(x) THEN IsOk(r, <<x[1], x[2], 0>>) ELSE IsErr(r)
Some(v) == <<0, v>>
NoneV == <<3, 0>>
B(b) == IF b THEN 1 ELSE 0

(* --------------------------- month arithmetic --------------------------- *)
\* day number of (the civil date of n) moved by k months, or -1 if it does not exist
AddMonthsDay(n, k) ==
  LET c == CivilFromDays(n)
      total == c[1] * 12 + (c[2] - 1) + k      \* |k| <= 2136000000: no 32-bit overflow
      ny == total \div 12
      nm == (total % 12) + 1
  IN IF ny < MinYear \/ ny > MaxYear \/ c[3] > MonthLen(ny, nm) THEN DateMin - 1
     ELSE DaysFromCivil(ny, nm, c[3])
LastDayOfMonth(n) == LET c == CivilFromDays(n) IN n - c[3] + MonthLen(c[1], c[2])

(* ---------------------------- big conversions --------------------------- *)
\* non-negative mixed-radix value -> big integer of microseconds
MRToBig(x) == BigAdd(BigMulSmall(BigMulSmall(BigAdd(BigMulSmall(BigFromInt(x[1]), 86400), BigFromInt(x[2])), 1000), 1000), BigFromInt(x[3]))
MRMag(x) == IF MRIsNeg(x) THEN MRNeg(x) ELSE x
MRSign(x) == IF MRIsNeg(x) THEN -1 ELSE IF x = MRZero THEN 0 ELSE 1
\* big integer of microseconds (< 2 * 10^9 days) -> mixed radix
BigToMR(b) == LET a == BigDivSmall(b, 1000)  c == BigDivSmall(a[1], 1000)  e == BigDivSmall(c[1], 86400)
              IN <<BigToInt(e[1]), e[2], c[2] * 1000 + a[2]>>
BigDivBig2(N, Dn) == IF Dn = <<1>> THEN N ELSE BigDivPow2(N, BitLen(Dn) - 1)   \* Dn is a power of two
DtMaxBig == MRToBig(DtMax)
YmMaxBig == BigFromInt(YmMax)
AbsI(i) == IF i < 0 THEN -i ELSE i

(* ------------------------- truncation / rounding ------------------------ *)
\* x = <<n, s, u>>; i = unit index 1..12; result instant or "none" (before 0001-01-01)
TruncInst(i, x) ==
  LET u == UnitSeq[i]  f == Frame(x[1]) IN
  CASE u = "hour"   -> <<x[1], (x[2] \div 3600) * 3600, 0>>
    [] u = "minute" -> <<x[1], (x[2] \div 60) * 60, 0>>
    [] OTHER        -> <<TruncDay(u, f), 0, 0>>
RoundInstSet(i, x) ==
  LET u == UnitSeq[i]  f == Frame(x[1])  s == x[2] IN
  CASE u = "hour"   -> {Norm(<<x[1], ((s \div 3600) + (IF s % 3600 >= 1800 THEN 1 ELSE 0)) * 3600, 0>>)}
    [] u = "minute" -> {Norm(<<x[1], ((s \div 60) + (IF s % 60 >= 30 THEN 1 ELSE 0)) * 60, 0>>)}
    [] OTHER        -> {<<v, 0, 0>> : v \in RoundDays(u, f, s \div 3600, IsStart(u, f) /\ s = 0 /\ x[3] = 0)}
\* r is Ok(one of S in range) or Err when some member of S is out of range
InstSetRes(r, S) == \/ (r[1] = 0 /\ r[2] \in S /\ TsInRange(r[2]))
                    \/ (r[1] = 1 /\ \E v \in S : ~TsInRange(v))
DaySetRes(r, S)  == \/ (r[1] = 0 /\ r[2] \in S /\ InDateRange(r[2]))
                    \/ (r[1] = 1 /\ \E v \in S : ~InDateRange(v))
TruncDateSet(i, n) == IF UnitSeq[i] \in ClockUnits THEN {n} ELSE {TruncDay(UnitSeq[i], Frame(n))}
RoundDateSet(i, n) == IF UnitSeq[i] \in ClockUnits THEN {n}
                      ELSE LET f == Frame(n) IN RoundDays(UnitSeq[i], f, 0, IsStart(UnitSeq[i], f))

(* --------------------------- accessors ---------------------------------- *)
AccDate(n) == LET c == CivilFromDays(n) IN <<Some(c[1]), Some(c[2]), Some(c[3]), NoneV, NoneV, NoneV, Some(n)>>
AccTime(t) == LET h == Hms(t[1]) IN <<NoneV, NoneV, NoneV, Some(h[1]), Some(h[2]), Some(h[3] * 1000000 + t[2]), NoneV>>
AccTs(x) == LET c == CivilFromDays(x[1])  h == Hms(x[2]) IN
  <<Some(c[1]), Some(c[2]), Some(c[3]), Some(h[1]), Some(h[2]), Some(h[3] * 1000000 + x[3]), Some(x[1])>>
AccYm(k) == LET sg == IF k < 0 THEN -1 ELSE 1 IN
  <<Some(sg * (AbsI(k) \div 12)), Some(sg * (AbsI(k) % 12)), NoneV, NoneV, NoneV, NoneV, NoneV>>
AccDt(x) == LET m == DtSignMag(x)  h == Hms(m[3]) IN
  <<NoneV, NoneV, Some(m[1] * m[2]), Some(m[1] * h[1]), Some(m[1] * h[2]), Some(m[1] * (h[3] * 1000000 + m[4])), NoneV>>

(* ----------------------- fractional-day offsets ------------------------- *)
\* Timestamp/OracleDate + days (a double F): the result must be the operand
\* moved by the real offset rounded to the nearest microsecond (unit = 1) or
\* the sum rounded to the nearest second (unit = 1000000); see Scale.NearestOK.
AddDaysOK(x, F, neg, r, unit, floorFirst) ==
  LET x0 == IF floorFirst THEN <<x[1], x[2], 0>> ELSE x IN
  \* (C08/C16 do not name the error kind for a NaN / infinite / unrepresentable offset: any error)
  IF FIsNaN(F) THEN IsErr(r)
  ELSE IF FIsInf(F) THEN IsErr(r)
  ELSE
    LET nd == OffsetND(F)
        sgn == (IF neg THEN -1 ELSE 1) * FSg(F)
        \* |offset| <= 2 * 10^8 days is the only region where a result can be in range
        huge == BigLt(BigMul(BigMulSmall(BigMulSmall(BigMulSmall(BigFromInt(200000000), 86400), 1000), 1000), nd[2]), nd[1])
    IN IF huge THEN IsErr(r)
       ELSE IF r[1] = 0 THEN
              LET off == MRSub(r[2], x0)                  \* signed offset actually applied
                  O == MRToBig(MRMag(off))
              IN /\ TsInRange(r[2])
                 /\ (unit = 1000000 => r[2][3] = 0)
                 /\ (BigIsZero(O) \/ MRSign(off) = sgn)
                 /\ NearestOK(nd[1], nd[2], IF unit = 1 THEN O ELSE BigDivSmall(BigDivSmall(O, 1000)[1], 1000)[1], unit)
            ELSE
              \* an error is allowed only if no correctly rounded result is in range:
              \* judge by the two microsecond neighbours floor / ceil of the real offset
              LET q == BigDivBig2(nd[1], nd[2])
                  lo == BigToMR(q)
                  cand(o) == IF sgn < 0 THEN MRSub(x0, o) ELSE MRAdd(x0, o)
              IN IsErr(r) /\ (~TsInRange(cand(lo)) \/ ~TsInRange(cand(MRAdd(lo, <<0, 0, 1>>)))
                              \/ (unit = 1000000 /\ ~TsInRange(cand(MRAdd(lo, <<0, 1, 0>>)))))

(* ------------------------------ comparisons ----------------------------- *)
CmpInt(a, b) == IF a < b THEN -1 ELSE IF a > b THEN 1 ELSE 0     \* no subtraction: operands may be near the 32-bit limits
\* the operators <, <=, >, >=, != as written by a user must be those of the ordering c (-1, 0, 1)
OpsOf(c) == <<B(c < 0), B(c <= 0), B(c > 0), B(c >= 0), B(c # 0)>>
\* same type: <<cmp, ==, equal hashes, operators>>
OrdIntOK(r0, a, b) == r0[1] = 0 /\ LET r == r0[2] IN r[1] = CmpInt(a, b) /\ r[2] = B(a = b) /\ (a = b => r[3] = 1)
                                                  /\ r[4] = OpsOf(CmpInt(a, b))
OrdMROK(r0, a, b) == r0[1] = 0 /\ LET r == r0[2] IN r[1] = MRCmp(a, b) /\ r[2] = B(a = b) /\ (a = b => r[3] = 1)
                                                 /\ r[4] = OpsOf(MRCmp(a, b))
\* mixed-type: <<partial_cmp as Option, ==, operators>>
POrdOK(r0, a, b) == r0[1] = 0 /\ LET r == r0[2] IN r[1] = Some(MRCmp(a, b)) /\ r[2] = B(a = b) /\ r[3] = OpsOf(MRCmp(a, b))

(* ------------------------------- clock ---------------------------------- *)
\* c = <<y, m, d, h, mi, s, us>>
ClockDayRes(c) == IF YmdVerdict(c[1], c[2], c[3]) = 0 THEN DaysFromCivil(c[1], c[2], c[3]) ELSE DateMin - 1

(* ------------------------------ agreement (C17) ------------------------- *)
\* a Date-valued (or midnight-timestamp-valued) result corresponds to a timestamp result
AgreeLift(rd, rt, dateValued) ==
  /\ rd[1] = rt[1]
  /\ rd[1] = 0 => (IF dateValued THEN <<rd[2], 0, 0>> = rt[2] ELSE rd[2] = rt[2])
\* an Oracle-date result is the timestamp result floored to the second
AgreeFloor(rt, ro) ==
  /\ rt[1] = ro[1]
  /\ rt[1] = 0 => ro[2] = <<rt[2][1], rt[2][2], 0>>

ParseOps == {"D.parse", "T.parse", "TS.parse", "YM.parse", "DT.parse", "OD.parse",
             "D.parse_at", "T.parse_at", "TS.parse_at", "YM.parse_at", "DT.parse_at", "OD.parse_at",
             "D.unjson", "T.unjson", "TS.unjson", "YM.unjson", "DT.unjson", "OD.unjson"}
TypeOfJsonOp(op) ==
  CASE op = "D.json" -> "D" [] op = "T.json" -> "T" [] op = "TS.json" -> "TS"
    [] op = "YM.json" -> "YM" [] op = "DT.json" -> "DT" [] op = "OD.json" -> "OD"
TypeOfBinOp(op) ==
  CASE op = "D.bin" -> "D" [] op = "T.bin" -> "T" [] op = "TS.bin" -> "TS"
    [] op = "YM.bin" -> "YM" [] op = "DT.bin" -> "DT" [] op = "OD.bin" -> "OD"
TypeOfUnbinOp(op) ==
  CASE op = "D.unbin" -> "D" [] op = "T.unbin" -> "T" [] op = "TS.unbin" -> "TS"
    [] op = "YM.unbin" -> "YM" [] op = "DT.unbin" -> "DT" [] op = "OD.unbin" -> "OD"
\* the fixed human-readable layouts
FixedPic(ty) ==
  CASE ty = "D" -> Chars("YYYY-MM-DD") [] ty = "T" -> Chars("HH24:MI:SS.FF6")
    [] ty = "TS" -> Chars("YYYY-MM-DD HH24:MI:SS.FF6") [] ty = "YM" -> Chars("YYYY-MM")
    [] ty = "DT" -> Chars("DD HH24:MI:SS.FF6") [] ty = "OD" -> Chars("YYYY-MM-DD HH24:MI:SS")
\* the compact binary payload: the raw day / month / microsecond count (counts of
\* microseconds in mixed radix; a Time's count has day digit 0)
RawOf(ty, v) == IF ty = "T" THEN <<0, v[1], v[2]>> ELSE v
RawInRange(ty, raw) ==
  CASE ty = "D" -> InDateRange(raw) [] ty = "YM" -> YmInRange(raw)
    [] ty = "T" -> raw[1] = 0 [] ty = "TS" -> TsInRange(raw) [] ty = "OD" -> OdInRange(raw) [] ty = "DT" -> DtInRange(raw)
TypeOfRoundtripOp(op) ==
  CASE op = "D.roundtrip" -> "D" [] op = "T.roundtrip" -> "T" [] op = "TS.roundtrip" -> "TS"
    [] op = "YM.roundtrip" -> "YM" [] op = "DT.roundtrip" -> "DT" [] op = "OD.roundtrip" -> "OD"
TypeOfFormatOp(op) ==
  CASE op = "D.format" -> "D" [] op = "T.format" -> "T" [] op = "TS.format" -> "TS"
    [] op = "YM.format" -> "YM" [] op = "DT.format" -> "DT" [] op = "OD.format" -> "OD"

(* ------------------------------ dispatcher ------------------------------ *)
YmVerdictOK(y, m) == m <= 11 /\ (y < 178000000 \/ (y = 178000000 /\ m = 0))
DhmsOK(d, h, mi, s, u) == HmsVerdict(h, mi, s, u) = 0 /\
                          (d < DtMaxDays \/ (d = DtMaxDays /\ h = 0 /\ mi = 0 /\ s = 0 /\ u = 0))
YmAddOK(r, a, b) == IF (b > 0 /\ a > YmMax - b) \/ (b < 0 /\ a < (-YmMax) - b) THEN IsErr(r) ELSE IsOk(r, a + b)
NegI(k) == 0 - k
TsOfOd(x) == x

FormatOpOf(ty) == CASE ty = "D" -> "D.format" [] ty = "T" -> "T.format" [] ty = "TS" -> "TS.format"
                     [] ty = "YM" -> "YM.format" [] ty = "DT" -> "DT.format" [] ty = "OD" -> "OD.format"
RECURSIVE OpOK(_, _, _)
OpOK(op, a, r) ==
  CASE
  (* ---- Date ---- *)
     op = "D.try_from_ymd" -> LET v == YmdVerdict(a[1], a[2], a[3]) IN
                              IF v = 0 THEN IsOk(r, DaysFromCivil(a[1], a[2], a[3]))
                              ELSE r[1] = 1 /\ r[2] \in YmdKinds(a[1], a[2], a[3])      \* any kind that matches a fault
  [] op = "D.is_valid"     -> IsOk(r, B(YmdVerdict(a[1], a[2], a[3]) = 0))
  [] op = "D.try_from_days" -> IF InDateRange(a[1]) THEN IsOk(r, a[1]) ELSE IsErrK(r, EDateOutOfRange)
  [] op = "D.days"         -> IsOk(r, a[1])
  [] op = "D.extract"      -> LET c == CivilFromDays(a[1]) IN IsOk(r, <<c[1], c[2], c[3]>>)
  [] op = "D.and_hms"      -> IF HmsVerdict(a[2], a[3], a[4], a[5]) = 0
                              THEN IsOk(r, <<a[1], SodOf(a[2], a[3], a[4]), a[5]>>) ELSE IsErr(r)
  [] op = "D.and_time"     -> IsOk(r, <<a[1], a[2][1], a[2][2]>>)
  [] op = "D.add_time"     -> IsOk(r, <<a[1], a[2][1], a[2][2]>>)
  [] op = "D.to_ts"        -> IsOk(r, <<a[1], 0, 0>>)
  [] op = "D.add_days"     -> IF a[2] > DateMax - DateMin \/ a[2] < DateMin - DateMax THEN IsErr(r)
                              ELSE ResDate(r, a[1] + a[2])
  [] op = "D.sub_days"     -> IF a[2] > DateMax - DateMin \/ a[2] < DateMin - DateMax THEN IsErr(r)
                              ELSE ResDate(r, a[1] - a[2])
  [] op = "D.sub_date"     -> IsOk(r, a[1] - a[2])
  [] op = "D.add_interval_ym" -> LET n == AddMonthsDay(a[1], a[2]) IN
                              IF InDateRange(n) THEN IsOk(r, <<n, 0, 0>>) ELSE IsErr(r)
  [] op = "D.sub_interval_ym" -> LET n == AddMonthsDay(a[1], NegI(a[2])) IN
                              IF InDateRange(n) THEN IsOk(r, <<n, 0, 0>>) ELSE IsErr(r)
  [] op = "D.add_interval_dt" -> ResTs(r, MRAdd(DateAsTs(a[1]), a[2]))
  [] op = "D.sub_interval_dt" -> ResTs(r, MRSub(DateAsTs(a[1]), a[2]))
  [] op = "D.sub_time"     -> ResTs(r, MRSub(DateAsTs(a[1]), TimeAsDt(a[2])))
  [] op = "D.sub_timestamp" -> IsOk(r, MRSub(DateAsTs(a[1]), a[2]))
  [] op = "D.day_of_week"  -> IsOk(r, Dow(a[1]))
  [] op = "D.last_day_of_month" -> IsOk(r, LastDayOfMonth(a[1]))
  [] op = "D.trunc"        -> DaySetRes(r, TruncDateSet(a[2], a[1]))
  [] op = "D.round"        -> DaySetRes(r, RoundDateSet(a[2], a[1]))
  [] op = "D.acc"          -> IsOk(r, AccDate(a[1]))
  [] op = "D.ord"          -> OrdIntOK(r, a[1], a[2])
  [] op = "D.ord_ts"       -> POrdOK(r, DateAsTs(a[1]), a[2])
  [] op = "D.ord_od"       -> POrdOK(r, DateAsTs(a[1]), a[2])
  [] op = "D.now_at"       -> ResDate(r, ClockDayRes(a[1]))
  (* ---- Time ---- *)
  [] op = "T.try_from_hms" -> IF HmsVerdict(a[1], a[2], a[3], a[4]) = 0
                              THEN IsOk(r, <<SodOf(a[1], a[2], a[3]), a[4]>>) ELSE IsErr(r)
  [] op = "T.is_valid"     -> IsOk(r, B(HmsVerdict(a[1], a[2], a[3], a[4]) = 0))
  [] op = "T.try_from_usecs" -> IF a[1][1] = 0 THEN IsOk(r, <<a[1][2], a[1][3]>>) ELSE IsErr(r)
  [] op = "T.usecs"        -> IsOk(r, TimeAsDt(a[1]))
  [] op = "T.extract"      -> LET h == Hms(a[1][1]) IN IsOk(r, <<h[1], h[2], h[3], a[1][2]>>)
  [] op = "T.sub_time"     -> IsOk(r, MRSub(TimeAsDt(a[1]), TimeAsDt(a[2])))
  [] op = "T.add_interval_dt" -> LET x == MRAdd(TimeAsDt(a[1]), a[2]) IN IsOk(r, <<x[2], x[3]>>)   \* modulo one day
  [] op = "T.sub_interval_dt" -> LET x == MRSub(TimeAsDt(a[1]), a[2]) IN IsOk(r, <<x[2], x[3]>>)
  [] op = "T.from_ts"      -> IsOk(r, <<a[1][2], a[1][3]>>)
  [] op = "T.from_od"      -> IsOk(r, <<a[1][2], a[1][3]>>)
  [] op = "T.from_dt"      -> LET m == DtSignMag(a[1]) IN IsOk(r, <<m[3], m[4]>>)     \* magnitude modulo one day
  [] op = "T.acc"          -> IsOk(r, AccTime(a[1]))
  [] op = "T.ord"          -> OrdMROK(r, TimeAsDt(a[1]), TimeAsDt(a[2]))
  [] op = "T.ord_dt"       -> POrdOK(r, TimeAsDt(a[1]), a[2])
  [] op = "T.mul_f64"      -> LET x == TimeAsDt(a[1]) IN
                              ScaleOK(FALSE, MRSign(x), MRToBig(x), a[2], DtMaxBig, r,
                                      IF r[1] = 0 THEN MRSign(r[2]) ELSE 0, IF r[1] = 0 THEN MRToBig(MRMag(r[2])) ELSE <<>>)
  [] op = "T.div_f64"      -> LET x == TimeAsDt(a[1]) IN
                              ScaleOK(TRUE, MRSign(x), MRToBig(x), a[2], DtMaxBig, r,
                                      IF r[1] = 0 THEN MRSign(r[2]) ELSE 0, IF r[1] = 0 THEN MRToBig(MRMag(r[2])) ELSE <<>>)
  (* ---- Timestamp ---- *)
  [] op = "TS.new"         -> IsOk(r, <<a[1], a[2][1], a[2][2]>>)
  [] op = "TS.extract"     -> IsOk(r, a[1])
  [] op = "TS.usecs"       -> IsOk(r, a[1])
  [] op = "TS.try_from_usecs" -> IF TsInRange(a[1]) THEN IsOk(r, a[1]) ELSE IsErr(r)
  [] op = "TS.add_interval_dt" -> ResTs(r, MRAdd(a[1], a[2]))
  [] op = "TS.sub_interval_dt" -> ResTs(r, MRSub(a[1], a[2]))
  [] op = "TS.add_time"    -> ResTs(r, MRAdd(a[1], TimeAsDt(a[2])))
  [] op = "TS.sub_time"    -> ResTs(r, MRSub(a[1], TimeAsDt(a[2])))
  [] op = "TS.add_interval_ym" -> LET n == AddMonthsDay(a[1][1], a[2]) IN
                              IF InDateRange(n) THEN IsOk(r, <<n, a[1][2], a[1][3]>>) ELSE IsErr(r)
  [] op = "TS.sub_interval_ym" -> LET n == AddMonthsDay(a[1][1], NegI(a[2])) IN
                              IF InDateRange(n) THEN IsOk(r, <<n, a[1][2], a[1][3]>>) ELSE IsErr(r)
  [] op = "TS.add_days"    -> AddDaysOK(a[1], a[2], FALSE, r, 1, FALSE)
  [] op = "TS.sub_days"    -> AddDaysOK(a[1], a[2], TRUE, r, 1, FALSE)
  [] op = "TS.oracle_add_days" -> AddDaysOK(a[1], a[2], FALSE, r, 1000000, TRUE)
  [] op = "TS.oracle_sub_days" -> AddDaysOK(a[1], a[2], TRUE, r, 1000000, TRUE)
  [] op = "TS.sub_date"    -> IsOk(r, MRSub(a[1], DateAsTs(a[2])))
  [] op = "TS.sub_timestamp" -> IsOk(r, MRSub(a[1], a[2]))
  [] op = "TS.oracle_sub_date" -> IsOk(r, MRSub(a[1], a[2]))
  [] op = "TS.last_day_of_month" -> IsOk(r, <<LastDayOfMonth(a[1][1]), a[1][2], a[1][3]>>)
  [] op = "TS.trunc"       -> LET t == TruncInst(a[2], a[1]) IN InstSetRes(r, {t})
  [] op = "TS.round"       -> InstSetRes(r, RoundInstSet(a[2], a[1]))
  [] op = "TS.acc"         -> IsOk(r, AccTs(a[1]))
  [] op = "TS.ord"         -> OrdMROK(r, a[1], a[2])
  [] op = "TS.ord_d"       -> POrdOK(r, a[1], DateAsTs(a[2]))
  [] op = "TS.ord_od"      -> POrdOK(r, a[1], a[2])
  [] op = "TS.now_at"      -> LET n == ClockDayRes(a[1]) IN
                              IF InDateRange(n) THEN IsOk(r, <<n, SodOf(a[1][4], a[1][5], a[1][6]), a[1][7]>>) ELSE IsErr(r)
  [] op = "TS.from_time_at" -> LET n == ClockDayRes(a[1]) IN
                              IF InDateRange(n) THEN IsOk(r, <<n, a[2][1], a[2][2]>>) ELSE IsErr(r)
  (* ---- IntervalYM ---- *)
  [] op = "YM.try_from_ym" -> IF YmVerdictOK(a[1], a[2]) THEN IsOk(r, a[1] * 12 + a[2]) ELSE IsErr(r)
  [] op = "YM.is_valid_ym" -> IsOk(r, B(YmVerdictOK(a[1], a[2])))
  [] op = "YM.try_from_months" -> IF YmInRange(a[1]) THEN IsOk(r, a[1]) ELSE IsErr(r)
  [] op = "YM.months"      -> IsOk(r, a[1])
  [] op = "YM.extract"     -> IsOk(r, <<IF a[1] < 0 THEN -1 ELSE 1, AbsI(a[1]) \div 12, AbsI(a[1]) % 12>>)
  [] op = "YM.add_interval_ym" -> YmAddOK(r, a[1], a[2])
  [] op = "YM.sub_interval_ym" -> YmAddOK(r, a[1], NegI(a[2]))
  [] op = "YM.neg"         -> IsOk(r, NegI(a[1]))
  [] op = "YM.acc"         -> IsOk(r, AccYm(a[1]))
  [] op = "YM.ord"         -> OrdIntOK(r, a[1], a[2])
  [] op = "YM.mul_f64"     -> ScaleOK(FALSE, Sgn(a[1]), BigFromInt(AbsI(a[1])), a[2], YmMaxBig, r,
                                      IF r[1] = 0 THEN Sgn(r[2]) ELSE 0, IF r[1] = 0 THEN BigFromInt(AbsI(r[2])) ELSE <<>>)
  [] op = "YM.div_f64"     -> ScaleOK(TRUE, Sgn(a[1]), BigFromInt(AbsI(a[1])), a[2], YmMaxBig, r,
                                      IF r[1] = 0 THEN Sgn(r[2]) ELSE 0, IF r[1] = 0 THEN BigFromInt(AbsI(r[2])) ELSE <<>>)
  (* ---- IntervalDT ---- *)
  [] op = "DT.try_from_dhms" -> IF DhmsOK(a[1], a[2], a[3], a[4], a[5])
                              THEN IsOk(r, <<a[1], SodOf(a[2], a[3], a[4]), a[5]>>) ELSE IsErr(r)
  [] op = "DT.is_valid"    -> IsOk(r, B(DhmsOK(a[1], a[2], a[3], a[4], a[5])))
  [] op = "DT.try_from_usecs" -> IF DtInRange(a[1]) THEN IsOk(r, a[1]) ELSE IsErr(r)
  [] op = "DT.usecs"       -> IsOk(r, a[1])
  [] op = "DT.extract"     -> LET m == DtSignMag(a[1])  h == Hms(m[3]) IN IsOk(r, <<m[1], m[2], h[1], h[2], h[3], m[4]>>)
  [] op = "DT.add_interval_dt" -> ResDt(r, MRAdd(a[1], a[2]))
  [] op = "DT.sub_interval_dt" -> ResDt(r, MRSub(a[1], a[2]))
  [] op = "DT.sub_time"    -> ResDt(r, MRSub(a[1], TimeAsDt(a[2])))
  [] op = "DT.neg"         -> IsOk(r, MRNeg(a[1]))
  [] op = "DT.from_time"   -> IsOk(r, TimeAsDt(a[1]))
  [] op = "DT.acc"         -> IsOk(r, AccDt(a[1]))
  [] op = "DT.ord"         -> OrdMROK(r, a[1], a[2])
  [] op = "DT.ord_t"       -> POrdOK(r, a[1], TimeAsDt(a[2]))
  [] op = "DT.mul_f64"     -> ScaleOK(FALSE, MRSign(a[1]), MRToBig(MRMag(a[1])), a[2], DtMaxBig, r,
                                      IF r[1] = 0 THEN MRSign(r[2]) ELSE 0, IF r[1] = 0 THEN MRToBig(MRMag(r[2])) ELSE <<>>)
  [] op = "DT.div_f64"     -> ScaleOK(TRUE, MRSign(a[1]), MRToBig(MRMag(a[1])), a[2], DtMaxBig, r,
                                      IF r[1] = 0 THEN MRSign(r[2]) ELSE 0, IF r[1] = 0 THEN MRToBig(MRMag(r[2])) ELSE <<>>)
  (* ---- OracleDate ---- *)
  [] op = "OD.new"         -> IsOk(r, <<a[1], a[2][1], 0>>)
  [] op = "OD.usecs"       -> IsOk(r, a[1])
  [] op = "OD.extract"     -> IsOk(r, a[1])
  [] op = "OD.try_from_usecs" -> IF OdInRange(a[1]) THEN IsOk(r, a[1]) ELSE IsErr(r)
  [] op = "OD.from_ts"     -> IsOk(r, <<a[1][1], a[1][2], 0>>)           \* floor toward earlier time
  [] op = "OD.to_ts"       -> IsOk(r, a[1])
  [] op = "OD.to_time"     -> IsOk(r, <<a[1][2], a[1][3]>>)
  [] op = "OD.add_interval_dt" -> ResOdFloor(r, MRAdd(a[1], a[2]))
  [] op = "OD.sub_interval_dt" -> ResOdFloor(r, MRSub(a[1], a[2]))
  [] op = "OD.add_interval_ym" -> LET n == AddMonthsDay(a[1][1], a[2]) IN
                              IF InDateRange(n) THEN IsOk(r, <<n, a[1][2], 0>>) ELSE IsErr(r)
  [] op = "OD.sub_interval_ym" -> LET n == AddMonthsDay(a[1][1], NegI(a[2])) IN
                              IF InDateRange(n) THEN IsOk(r, <<n, a[1][2], 0>>) ELSE IsErr(r)
  [] op = "OD.add_time"    -> ResTs(r, MRAdd(a[1], TimeAsDt(a[2])))
  [] op = "OD.sub_time"    -> ResTs(r, MRSub(a[1], TimeAsDt(a[2])))
  [] op = "OD.add_days"    -> AddDaysOK(a[1], a[2], FALSE, r, 1000000, FALSE)
  [] op = "OD.sub_days"    -> AddDaysOK(a[1], a[2], TRUE, r, 1000000, FALSE)
  [] op = "OD.sub_date"    -> IsOk(r, MRSub(a[1], a[2]))                 \* exact distance (days as a double, logged in seconds)
  [] op = "OD.sub_timestamp" -> IsOk(r, MRSub(a[1], a[2]))
  [] op = "OD.last_day_of_month" -> IsOk(r, <<LastDayOfMonth(a[1][1]), a[1][2], 0>>)
  [] op = "OD.trunc"       -> LET t == TruncInst(a[2], a[1]) IN InstSetRes(r, {t})
  [] op = "OD.round"       -> InstSetRes(r, RoundInstSet(a[2], a[1]))
  [] op = "OD.acc"         -> IsOk(r, AccTs(a[1]))
  [] op = "OD.ord"         -> OrdMROK(r, a[1], a[2])
  [] op = "OD.ord_ts"      -> POrdOK(r, a[1], a[2])
  [] op = "OD.ord_d"       -> POrdOK(r, a[1], DateAsTs(a[2]))
  [] op = "OD.now_at"      -> LET n == ClockDayRes(a[1]) IN
                              IF InDateRange(n) THEN IsOk(r, <<n, SodOf(a[1][4], a[1][5], a[1][6]), 0>>) ELSE IsErr(r)
  [] op = "OD.from_time_at" -> LET n == ClockDayRes(a[1]) IN
                              IF InDateRange(n) THEN IsOk(r, <<n, a[2][1], 0>>) ELSE IsErr(r)
  (* ---- pictures and formatting (C19, C04) ---- *)
  [] op = "F.try_new" -> IF Unjudged(a[1]) THEN r[1] \in {0, 1}
                         ELSE IF PicAccepted(a[1]) THEN r[1] = 0 ELSE IsErr(r)
  \* ONE Formatter object formatting a sequence of values of any types: a = <<picture, << <<type, value>>, ... >> >>.
  \* A formatter has no memory: every step gives what a fresh formatter gives for that value.
  [] op = "F.session" ->
        r[1] = 0 /\ Len(r[2]) = Len(a[2]) /\
        \A j \in 1..Len(a[2]) : OpOK(FormatOpOf(a[2][j][1]), <<a[2][j][2], a[1]>>, r[2][j])
  [] op \in {"D.format", "T.format", "TS.format", "YM.format", "DT.format", "OD.format"} ->
        IF Unjudged(a[2]) THEN r[1] \in {0, 1}
        ELSE LET e == FormatRes(a[2], TypeOfFormatOp(op), a[1]) IN
             IF e[1] = 0 THEN IsOk(r, e[2]) ELSE IsErr(r)
  (* ---- parsing of arbitrary text: which value (if any) an arbitrary text denotes is decided by
          Spell.tla for the texts it spells (SpellGen); for any other text the properties only demand
          "a value in range or an error, never a panic" (C02, C03) - judged by ValueInRange / NoPanic ---- *)
  [] op \in ParseOps -> r[1] \in {0, 1}
  \* one Formatter object, the same text parsed under clock A and then under clock B: <<result A, result B>>.
  \* What each must be is generated by SpellGen (the denotation under that clock - a formatter has no memory).
  [] op \in {"D.parse_reuse_at", "T.parse_reuse_at", "TS.parse_reuse_at", "YM.parse_reuse_at", "DT.parse_reuse_at",
             "OD.parse_reuse_at"} -> r[1] = 0 /\ Len(r[2]) = 2 /\ r[2][1][1] \in {0, 1} /\ r[2][2][1] \in {0, 1}
  (* ---- serialization (C15) ---- *)
  [] op \in {"D.json", "T.json", "TS.json", "YM.json", "DT.json", "OD.json"} ->
        \* <<the text written, what that text deserializes to>>: the fixed layout, and the value again
        LET ty == TypeOfJsonOp(op)  e == RenderTokens(Lex(FixedPic(ty)), ty, a[1]) IN
        e[1] = 0 /\ r[1] = 0 /\ r[2][1] = e[2] /\ r[2][2] = <<0, a[1]>>
  [] op \in {"D.bin", "T.bin", "TS.bin", "YM.bin", "DT.bin", "OD.bin"} ->
        LET ty == TypeOfBinOp(op) IN
        r[1] = 0 /\ r[2] = <<IF ty \in {"D", "YM"} THEN 4 ELSE 8, RawOf(ty, a[1]), <<0, a[1]>> >>
  [] op \in {"D.unbin", "T.unbin", "TS.unbin", "YM.unbin", "DT.unbin", "OD.unbin"} ->
        LET ty == TypeOfUnbinOp(op) IN
        IF RawInRange(ty, a[1]) THEN IsOk(r, a[1]) ELSE IsErr(r)
  (* ---- format -> parse -> format with the same picture (C06) ---- *)
  [] op \in {"D.roundtrip", "T.roundtrip", "TS.roundtrip", "YM.roundtrip", "DT.roundtrip", "OD.roundtrip"} ->
        r[1] = 0 /\
        LET ty == TypeOfRoundtripOp(op)  toks == Lex(a[2])  p == r[2] IN
        IF ~IsInvalid(toks) /\ Lossless(toks, ty) THEN
             /\ p[1] = RenderTokens(toks, ty, a[1])          \* the text is what the picture says
             /\ p[2] = <<0, a[1]>>                           \* parsing it yields the original value
             /\ p[3] = p[1]                                  \* and formatting that reproduces the text
        ELSE \A q \in 1..Len(p) : p[q][1] # 2              \* otherwise only: no panic
  (* ---- vector form: one first argument, many second arguments ---- *)
  [] op = "VEC" -> r[1] = 0 /\ Len(r[2]) = Len(a[3]) /\
                   \A j \in 1..Len(a[3]) : OpOK(a[1], <<a[2], a[3][j]>>, r[2][j])
  (* ---- C17: the same operation through the three types (relational) ---- *)
  [] op \in {"AG.dt", "AG.ym", "AG.ldm"} ->
        r[1] = 0 /\ LET p == r[2] IN AgreeLift(p[1], p[2], op = "AG.ldm") /\ AgreeFloor(p[2], p[3])
  [] op \in {"AG.dt2", "AG.ym2", "AG.ldm2", "AG.trunc", "AG.round"} ->
        r[1] = 0 /\ LET p == r[2] IN AgreeFloor(p[1], p[2])
  [] op \in {"AG.diff", "AG.diff2"} ->
        r[1] = 0 /\ LET p == r[2] IN p[1] = p[2] /\ p[3][1] = 0 /\ p[3][2] = MRNeg(p[1][2])
  [] op \in {"AG.cmp_d_ts", "AG.cmp_od_ts", "AG.cmp_od_d"} ->
        r[1] = 0 /\ LET p == r[2]  c == p[3][2][1]  e == p[3][2][2] IN
             /\ p[1] = <<0, <<Some(c), e, OpsOf(c)>> >>          \* a ? b  as comparing the converted values
             /\ p[2] = <<0, <<Some(0 - c), e, OpsOf(0 - c)>> >>  \* b ? a  the other argument order
             /\ p[3][2][4] = OpsOf(c)
  [] OTHER -> Assert(FALSE, <<"Ops: unknown operation", op>>)

\* C02: whatever an operation returns as a value lies in its type's range.
\* Result type of each operation (for the range invariant and for Session.tla).
ResType(op) ==
  CASE op \in {"D.parse", "D.parse_at", "D.unjson", "D.try_from_ymd", "D.try_from_days", "D.add_days", "D.sub_days", "D.last_day_of_month",
               "D.trunc", "D.round", "D.now_at"} -> "D"
    [] op \in {"TS.parse", "TS.parse_at", "TS.unjson", "D.and_hms", "D.and_time", "D.add_time", "D.to_ts", "D.add_interval_ym", "D.sub_interval_ym",
               "D.add_interval_dt", "D.sub_interval_dt", "D.sub_time", "TS.new", "TS.try_from_usecs",
               "TS.add_interval_dt", "TS.sub_interval_dt", "TS.add_time", "TS.sub_time", "TS.add_interval_ym",
               "TS.sub_interval_ym", "TS.add_days", "TS.sub_days", "TS.last_day_of_month", "TS.trunc", "TS.round",
               "TS.now_at", "TS.from_time_at", "OD.to_ts", "OD.add_time", "OD.sub_time"} -> "TS"
    [] op \in {"T.parse", "T.parse_at", "T.unjson", "T.try_from_hms", "T.try_from_usecs", "T.add_interval_dt", "T.sub_interval_dt", "T.from_ts",
               "T.from_od", "T.from_dt", "OD.to_time"} -> "T"
    [] op \in {"YM.parse", "YM.parse_at", "YM.unjson", "YM.try_from_ym", "YM.try_from_months", "YM.add_interval_ym", "YM.sub_interval_ym", "YM.neg",
               "YM.mul_f64", "YM.div_f64"} -> "YM"
    [] op \in {"DT.parse", "DT.parse_at", "DT.unjson", "D.sub_timestamp", "T.sub_time", "T.mul_f64", "T.div_f64", "TS.sub_date", "TS.sub_timestamp",
               "TS.oracle_sub_date", "DT.try_from_dhms", "DT.try_from_usecs", "DT.add_interval_dt",
               "DT.sub_interval_dt", "DT.sub_time", "DT.neg", "DT.from_time", "DT.mul_f64", "DT.div_f64",
               "OD.sub_timestamp"} -> "DT"
    [] op \in {"OD.parse", "OD.parse_at", "OD.unjson", "TS.oracle_add_days", "TS.oracle_sub_days", "OD.new", "OD.try_from_usecs", "OD.from_ts",
               "OD.add_interval_dt", "OD.sub_interval_dt", "OD.add_interval_ym", "OD.sub_interval_ym",
               "OD.add_days", "OD.sub_days", "OD.last_day_of_month", "OD.trunc", "OD.round", "OD.now_at",
               "OD.from_time_at"} -> "OD"
    [] OTHER -> "-"
InRangeOf(ty, v) ==
  CASE ty = "D"  -> InDateRange(v)
    [] ty = "T"  -> IsTime(v)
    [] ty = "TS" -> TsInRange(v)
    [] ty = "OD" -> OdInRange(v)
    [] ty = "YM" -> YmInRange(v)
    [] ty = "DT" -> DtInRange(v)
    [] OTHER     -> TRUE
\* C02 as a predicate on a logged event
ValueInRange1(op, r) ==
  LET ty == ResType(op) IN
  IF ty = "-" THEN TRUE
  ELSE (r[1] = 0 => InRangeOf(ty, r[2]))
ValueInRangeX(op, a, r) ==
  IF op = "VEC" THEN r[1] = 0 => \A j \in 1..Len(r[2]) : ValueInRange1(a[1], r[2][j])
  ELSE ValueInRange1(op, r)
NoPanicX(op, r) == r[1] # 2 /\ (op = "VEC" => \A j \in 1..Len(r[2]) : r[2][j][1] # 2)
ValueInRange(op, r) ==
  LET ty == ResType(op) IN
  IF ty = "-" THEN TRUE
  ELSE (r[1] = 0 => InRangeOf(ty, r[2]))
NoPanic(r) == r[1] # 2
=============================================================================
