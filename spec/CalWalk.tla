------------------------------ MODULE CalWalk -------------------------------
(***************************************************************************)
(* The proleptic Gregorian calendar as a next-state relation.              *)
(*                                                                         *)
(* NextDay is the successor rule of the calendar (the literal content of   *)
(* property C01): months of 28/29/30/31 days, leap years every 4 years     *)
(* except century years not divisible by 400, weekday advancing by one.    *)
(* PrevDay is its inverse.  The walker also remembers, per unit, the last  *)
(* unit start seen (forward) or the next unit start ahead (backward).      *)
(*                                                                         *)
(* TLC checks, on every one of the 3,652,059 days, that every closed form  *)
(* of Cal and Units agrees with the walker - so the closed forms can be    *)
(* used as oracles elsewhere.  To let TLC work in parallel there is one    *)
(* chain per year: the forward chain of year Y starts on 1 January Y       *)
(* (seeded from the closed forms) and runs THROUGH 1 January Y+1, where    *)
(* the invariant compares it with the closed forms again; by induction     *)
(* from 0001-01-01 (whose seeds are checked against IsStart by ASSUME) the *)
(* seeds are justified.  Symmetrically for the backward chains from        *)
(* 9999-12-31.                                                             *)
(***************************************************************************)
EXTENDS Units, TLC

CONSTANT YearSet     \* chains for these years (1..9999 = everything)

VARIABLES dir,      \* "fwd" or "bwd"
          f,        \* current day frame [n, y, m, d, wd, doy]
          mark,     \* fwd: last[u] = latest start of u seen (or -1000000 if none)
                    \* bwd: next[u] = earliest start of u strictly after f
          head      \* the year whose chain this is (bounds the chain)
vars == <<dir, f, mark, head>>

None == -1000000

SeedLast(g) == [u \in DayUnits |->
                  IF TruncDay(u, g) < DateMin THEN None ELSE TruncDay(u, g)]
SeedNext(g) == [u \in DayUnits |-> NextBDay(u, g)]

Init ==
  \E yy \in YearSet :
    \/ /\ dir = "fwd" /\ head = yy
       /\ f = Frame(DaysFromCivil(yy, 1, 1))
       /\ mark = SeedLast(f)
    \/ /\ dir = "bwd" /\ head = yy
       /\ f = Frame(DaysFromCivil(yy, 12, 31))
       /\ mark = SeedNext(f)

Fwd == /\ dir = "fwd"
       /\ f.n < DateMax
       /\ f.y = head                     \* runs through 1 January of head+1
       /\ f' = NextFrame(f)
       /\ mark' = [u \in DayUnits |-> IF IsStart(u, f') THEN f'.n ELSE mark[u]]
       /\ UNCHANGED <<dir, head>>

Bwd == /\ dir = "bwd"
       /\ f.n > DateMin
       /\ f.y = head                     \* runs through 31 December of head-1
       /\ f' = PrevFrame(f)
       /\ mark' = [u \in DayUnits |-> IF IsStart(u, f) THEN f.n ELSE mark[u]]
       /\ UNCHANGED <<dir, head>>

Next == Fwd \/ Bwd
Spec == Init /\ [][Next]_vars

(* ------------------------------ invariants ------------------------------ *)
\* C01: the closed forms are the walker
ClosedFormsAgree ==
  /\ CivilFromDays(f.n) = <<f.y, f.m, f.d, f.doy>>
  /\ DaysFromCivil(f.y, f.m, f.d) = f.n
  /\ Dow(f.n) = f.wd
  /\ DayOfYear(f.y, f.m, f.d) = f.doy
  /\ MonthDayOfDoy(f.y, f.doy) = <<f.m, f.d>>
  /\ YmdVerdict(f.y, f.m, f.d) = 0
  /\ InDateRange(f.n)
  /\ f.y \in MinYear..MaxYear

EpochIsThursday == f.n = 0 => (f.y = 1970 /\ f.m = 1 /\ f.d = 1 /\ f.wd = 5)
RangeEnds == /\ f.n = DateMin => <<f.y, f.m, f.d>> = <<1, 1, 1>>
             /\ f.n = DateMax => <<f.y, f.m, f.d>> = <<9999, 12, 31>>
             /\ <<f.y, f.m, f.d>> = <<1, 1, 1>> => f.n = DateMin
             /\ <<f.y, f.m, f.d>> = <<9999, 12, 31>> => f.n = DateMax

\* C10: closed-form truncation = latest start seen by the forward walker
TruncIsLastStart ==
  dir = "fwd" => \A u \in DayUnits :
     IF mark[u] = None THEN TruncDay(u, f) < DateMin
     ELSE TruncDay(u, f) = mark[u]

\* C11: closed-form next boundary = earliest start ahead seen by the backward walker
NextBIsNextStart ==
  dir = "bwd" => \A u \in DayUnits : NextBDay(u, f) = mark[u]

\* derived facts the properties state (checked on the spec itself)
TruncFacts ==
  dir = "fwd" => \A u \in DayUnits :
     /\ TruncDay(u, f) <= f.n                         \* never moves forward
     /\ f.n < NextBDay(u, f)
     /\ (TruncDay(u, f) = f.n) = IsStart(u, f)        \* on a boundary iff a start
     /\ TruncDay(u, f) >= DateMin =>                  \* idempotent
          TruncDay(u, Frame(TruncDay(u, f))) = TruncDay(u, f)
RoundFacts ==
  dir = "fwd" => \A u \in DayUnits : \A h \in {0, 12} :
     /\ RoundDays(u, f, h, IsStart(u, f) /\ h = 0) \subseteq {TruncDay(u, f), NextBDay(u, f)}
     /\ (IsStart(u, f) /\ h = 0) => RoundDays(u, f, h, TRUE) = {f.n}
IsoYearFacts ==
  dir = "fwd" =>
  /\ IsoYearStart(IsoYearOf(f.n)) <= f.n
  /\ f.n < IsoYearStart(IsoYearOf(f.n) + 1)
  /\ Dow(IsoYearStart(f.y)) = 2

\* the only dates whose truncation does not exist: Sunday week of 0001-01-01..06
TruncFailsOnlyThere ==
  \A u \in DayUnits : TruncDay(u, f) < DateMin => (u = "sunweek" /\ f.y = 1 /\ f.m = 1 /\ f.d <= 6)

\* anchors of the induction
ASSUME LET g == Frame(DateMin) IN
       /\ <<g.y, g.m, g.d, g.wd, g.doy>> = <<1, 1, 1, 2, 1>>     \* a Monday
       /\ \A u \in DayUnits : IF IsStart(u, g) THEN SeedLast(g)[u] = g.n
                                               ELSE SeedLast(g)[u] = None
ASSUME LET g == Frame(DateMax) IN
       /\ <<g.y, g.m, g.d, g.wd, g.doy>> = <<9999, 12, 31, 6, 365>>  \* a Friday
       /\ SeedNext(g) = [u \in DayUnits |->
            CASE u \in {"year", "quarter", "month", "week", "monthweek", "day"} -> DateMax + 1
              [] u = "sunweek"  -> DateMax + 2      \* Sunday 10000-01-02
              [] u = "isoweek"  -> DateMax + 3      \* Monday 10000-01-03
              [] u = "isoyear"  -> DateMax + 3      \* Monday 10000-01-03 starts ISO year 10000
              [] u = "century"  -> DateMax + 367]   \* 10001-01-01 (10000 is a leap year)
=============================================================================
