------------------------------ MODULE CalWalk -------------------------------
(***************************************************************************)
(* The proleptic Gregorian calendar as a next-state relation.              *)
(*                                                                         *)
(* NextDay is the successor rule of the calendar (the literal content of   *)
(* property C01): months of 28/29/30/31 days, leap years every 4 years     *)
(* except century years not divisible by 400, weekday advancing by one.    *)
(* PrevDay is its inverse.  The walker also remembers, per unit, the last  *)
(* unit start seen (forward) or the next unit start ahead (backward).      *)
(*                                                                         *)
(* TLC checks, on every one of the 3,652,059 days, that every closed form  *)
(* of Cal and Units agrees with the walker - so the closed forms can be    *)
(* used as oracles elsewhere.  To let TLC work in parallel there is one    *)
(* chain per year: the forward chain of year Y starts on 1 January Y       *)
(* (seeded from the closed forms) and runs THROUGH 1 January Y+1, where    *)
(* the invariant compares it with the closed forms again; by induction     *)
(* from 0001-01-01 (whose seeds are checked against IsStart by ASSUME) the *)
(* seeds are justified.  Symmetrically for the backward chains from        *)
(* 9999-12-31.                                                             *)
(***************************************************************************)
EXTENDS Units, TLC

CONSTANT YearSet     \* chains for these years (1..9999 = everything)

VARIABLES wdir,      \* "fwd" or "bwd"
          cur,        \* current day frame [n, y, m, d, wd, doy]
          marks,     \* fwd: last[u] = latest start of u seen (or -1000000 if none)
                    \* bwd: next[u] = earliest start of u strictly after cur
          chainyear      \* the year whose chain this is (bounds the chain)
vars == <<wdir, cur, marks, chainyear>>

None == -1000000

SeedLast(g) == [u \in DayUnits |->
                  IF TruncDay(u, g) < DateMin THEN None ELSE TruncDay(u, g)]
SeedNext(g) == [u \in DayUnits |-> NextBDay(u, g)]

Init ==
  \E yy \in YearSet :
    \/ /\ wdir = "fwd" /\ chainyear = yy
       /\ cur = Frame(DaysFromCivil(yy, 1, 1))
       /\ marks = SeedLast(cur)
    \/ /\ wdir = "bwd" /\ chainyear = yy
       /\ cur = Frame(DaysFromCivil(yy, 12, 31))
       /\ marks = SeedNext(cur)

Fwd == /\ wdir = "fwd"
       /\ cur.n < DateMax
       /\ cur.y = chainyear                     \* runs through 1 January of chainyear+1
       /\ cur' = NextFrame(cur)
       /\ marks' = [u \in DayUnits |-> IF IsStart(u, cur') THEN cur'.n ELSE marks[u]]
       /\ UNCHANGED <<wdir, chainyear>>

Bwd == /\ wdir = "bwd"
       /\ cur.n > DateMin
       /\ cur.y = chainyear                     \* runs through 31 December of chainyear-1
       /\ cur' = PrevFrame(cur)
       /\ marks' = [u \in DayUnits |-> IF IsStart(u, cur) THEN cur.n ELSE marks[u]]
       /\ UNCHANGED <<wdir, chainyear>>

Next == Fwd \/ Bwd
Spec == Init /\ [][Next]_vars

(* ------------------------------ invariants ------------------------------ *)
\* C01: the closed forms are the walker
ClosedFormsAgree ==
  /\ CivilFromDays(cur.n) = <<cur.y, cur.m, cur.d, cur.doy>>
  /\ DaysFromCivil(cur.y, cur.m, cur.d) = cur.n
  /\ Dow(cur.n) = cur.wd
  /\ DayOfYear(cur.y, cur.m, cur.d) = cur.doy
  /\ MonthDayOfDoy(cur.y, cur.doy) = <<cur.m, cur.d>>
  /\ YmdVerdict(cur.y, cur.m, cur.d) = 0
  /\ InDateRange(cur.n)
  /\ cur.y \in MinYear..MaxYear

EpochIsThursday == cur.n = 0 => (cur.y = 1970 /\ cur.m = 1 /\ cur.d = 1 /\ cur.wd = 5)
RangeEnds == /\ cur.n = DateMin => <<cur.y, cur.m, cur.d>> = <<1, 1, 1>>
             /\ cur.n = DateMax => <<cur.y, cur.m, cur.d>> = <<9999, 12, 31>>
             /\ <<cur.y, cur.m, cur.d>> = <<1, 1, 1>> => cur.n = DateMin
             /\ <<cur.y, cur.m, cur.d>> = <<9999, 12, 31>> => cur.n = DateMax

\* C10: closed-form truncation = latest start seen by the forward walker
TruncIsLastStart ==
  wdir = "fwd" => \A u \in DayUnits :
     IF marks[u] = None THEN TruncDay(u, cur) < DateMin
     ELSE TruncDay(u, cur) = marks[u]

\* C11: closed-form next boundary = earliest start ahead seen by the backward walker
NextBIsNextStart ==
  wdir = "bwd" => \A u \in DayUnits : NextBDay(u, cur) = marks[u]

\* derived facts the properties state (checked on the spec itself)
TruncFacts ==
  wdir = "fwd" => \A u \in DayUnits :
     /\ TruncDay(u, cur) <= cur.n                         \* never moves forward
     /\ cur.n < NextBDay(u, cur)
     /\ (TruncDay(u, cur) = cur.n) = IsStart(u, cur)        \* on a boundary iff a start
     /\ TruncDay(u, cur) >= DateMin =>                  \* idempotent
          TruncDay(u, Frame(TruncDay(u, cur))) = TruncDay(u, cur)
RoundFacts ==
  wdir = "fwd" => \A u \in DayUnits : \A h \in {0, 12} :
     /\ RoundDays(u, cur, h, IsStart(u, cur) /\ h = 0) \subseteq {TruncDay(u, cur), NextBDay(u, cur)}
     /\ (IsStart(u, cur) /\ h = 0) => RoundDays(u, cur, h, TRUE) = {cur.n}
IsoYearFacts ==
  wdir = "fwd" =>
  /\ IsoYearStart(IsoYearOf(cur.n)) <= cur.n
  /\ cur.n < IsoYearStart(IsoYearOf(cur.n) + 1)
  /\ Dow(IsoYearStart(cur.y)) = 2

\* the only dates whose truncation does not exist: Sunday week of 0001-01-01..06
TruncFailsOnlyThere ==
  \A u \in DayUnits : TruncDay(u, cur) < DateMin => (u = "sunweek" /\ cur.y = 1 /\ cur.m = 1 /\ cur.d <= 6)

\* anchors of the induction
ASSUME LET g == Frame(DateMin) IN
       /\ <<g.y, g.m, g.d, g.wd, g.doy>> = <<1, 1, 1, 2, 1>>     \* a Monday
       /\ \A u \in DayUnits : IF IsStart(u, g) THEN SeedLast(g)[u] = g.n
                                               ELSE SeedLast(g)[u] = None
ASSUME LET g == Frame(DateMax) IN
       /\ <<g.y, g.m, g.d, g.wd, g.doy>> = <<9999, 12, 31, 6, 365>>  \* a Friday
       /\ SeedNext(g) = [u \in DayUnits |->
            CASE u \in {"year", "quarter", "month", "week", "monthweek", "day"} -> DateMax + 1
              [] u = "sunweek"  -> DateMax + 2      \* Sunday 10000-01-02
              [] u = "isoweek"  -> DateMax + 3      \* Monday 10000-01-03
              [] u = "isoyear"  -> DateMax + 3      \* Monday 10000-01-03 starts ISO year 10000
              [] u = "century"  -> DateMax + 367]   \* 10001-01-01 (10000 is a leap year)
=============================================================================
