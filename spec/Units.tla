------------------------------ MODULE Units --------------------------------
(***************************************************************************)
(* The twelve truncation / rounding units.                                 *)
(*                                                                         *)
(* A "day frame" f is a record [n, y, m, d, wd, doy] describing one day    *)
(* (day number, civil fields, weekday 1..7 = Sun..Sat, day of year).  It   *)
(* is produced either by the walker of CalWalk (inductively) or by         *)
(* Frame(n) (closed form).                                                 *)
(*                                                                         *)
(* IsStart(u, f) is the DECLARATIVE definition of "a unit of kind u starts *)
(* on day f", taken from the documentation of the Trunc trait.             *)
(* TruncDay / NextBDay are closed forms for "latest start not after f" and *)
(* "earliest start after f"; CalWalk model-checks them against IsStart by  *)
(* walking the whole calendar forward and backward.                        *)
(***************************************************************************)
EXTENDS Cal

DayUnits == {"century", "year", "isoyear", "quarter", "month", "week",
             "isoweek", "monthweek", "day", "sunweek"}
ClockUnits == {"hour", "minute"}
AllUnits == DayUnits \cup ClockUnits
\* order used in traces (index 1..12), same order as the Trunc/Round traits
UnitSeq == <<"century", "year", "isoyear", "quarter", "month", "week",
             "isoweek", "monthweek", "day", "sunweek", "hour", "minute">>

Frame(n) == LET c == CivilFromDays(n) IN
  [n |-> n, y |-> c[1], m |-> c[2], d |-> c[3], wd |-> Dow(n), doy |-> c[4]]

(* successor / predecessor of a frame: the inductive definition of the
   proleptic Gregorian calendar (28/29/30/31-day months, leap rule, weekday
   advancing by one) *)
NextFrame(g) ==
  LET lastOfMonth == g.d = MonthLen(g.y, g.m)
      lastOfYear  == lastOfMonth /\ g.m = 12
  IN [n   |-> g.n + 1,
      y   |-> IF lastOfYear THEN g.y + 1 ELSE g.y,
      m   |-> IF lastOfYear THEN 1 ELSE IF lastOfMonth THEN g.m + 1 ELSE g.m,
      d   |-> IF lastOfMonth THEN 1 ELSE g.d + 1,
      wd  |-> (g.wd % 7) + 1,
      doy |-> IF lastOfYear THEN 1 ELSE g.doy + 1]

PrevFrame(g) ==
  LET firstOfMonth == g.d = 1
      firstOfYear  == firstOfMonth /\ g.m = 1
      py == IF firstOfYear THEN g.y - 1 ELSE g.y
      pm == IF firstOfYear THEN 12 ELSE IF firstOfMonth THEN g.m - 1 ELSE g.m
  IN [n   |-> g.n - 1,
      y   |-> py,
      m   |-> pm,
      d   |-> IF firstOfMonth THEN MonthLen(py, pm) ELSE g.d - 1,
      wd  |-> ((g.wd + 5) % 7) + 1,
      doy |-> IF firstOfYear THEN YearLen(py) ELSE g.doy - 1]

IsStart(u, f) ==
  CASE u = "century"   -> f.d = 1 /\ f.m = 1 /\ f.y % 100 = 1
    [] u = "year"      -> f.d = 1 /\ f.m = 1
    [] u = "isoyear"   -> f.wd = 2 /\ ((f.m = 1 /\ f.d <= 4) \/ (f.m = 12 /\ f.d >= 29))
    [] u = "quarter"   -> f.d = 1 /\ f.m \in {1, 4, 7, 10}
    [] u = "month"     -> f.d = 1
    [] u = "week"      -> f.doy % 7 = 1
    [] u = "isoweek"   -> f.wd = 2
    [] u = "monthweek" -> f.d \in {1, 8, 15, 22, 29}
    [] u = "day"       -> TRUE
    [] u = "sunweek"   -> f.wd = 1

\* closed form: day number of the latest start of unit u not after f
TruncDay(u, f) ==
  CASE u = "century"   -> DaysFromCivil(((f.y - 1) \div 100) * 100 + 1, 1, 1)
    [] u = "year"      -> f.n - (f.doy - 1)
    [] u = "isoyear"   -> IsoYearStart(IsoYearOf(f.n))
    [] u = "quarter"   -> DaysFromCivil(f.y, 3 * ((f.m - 1) \div 3) + 1, 1)
    [] u = "month"     -> f.n - (f.d - 1)
    [] u = "week"      -> f.n - ((f.doy - 1) % 7)
    [] u = "isoweek"   -> f.n - ((f.wd + 5) % 7)
    [] u = "monthweek" -> f.n - ((f.d - 1) % 7)
    [] u = "day"       -> f.n
    [] u = "sunweek"   -> f.n - (f.wd - 1)

\* closed form: day number of the earliest start of unit u strictly after f
NextBDay(u, f) ==
  CASE u = "century"   -> DaysFromCivil(((f.y - 1) \div 100) * 100 + 101, 1, 1)
    [] u = "year"      -> f.n - (f.doy - 1) + YearLen(f.y)
    [] u = "isoyear"   -> IsoYearStart(IsoYearOf(f.n) + 1)
    [] u = "quarter"   -> IF f.m >= 10 THEN DaysFromCivil(f.y + 1, 1, 1)
                          ELSE DaysFromCivil(f.y, 3 * ((f.m - 1) \div 3) + 4, 1)
    [] u = "month"     -> f.n - (f.d - 1) + MonthLen(f.y, f.m)
    [] u = "week"      -> Min2(f.n - ((f.doy - 1) % 7) + 7, f.n - (f.doy - 1) + YearLen(f.y))
    [] u = "isoweek"   -> f.n - ((f.wd + 5) % 7) + 7
    [] u = "monthweek" -> Min2(f.n - ((f.d - 1) % 7) + 7, f.n - (f.d - 1) + MonthLen(f.y, f.m))
    [] u = "day"       -> f.n + 1
    [] u = "sunweek"   -> f.n - (f.wd - 1) + 7

\* position 0..6 of f inside its week of kind u
WeekPos(u, f) ==
  CASE u = "week"      -> (f.doy - 1) % 7
    [] u = "isoweek"   -> (f.wd + 5) % 7
    [] u = "monthweek" -> (f.d - 1) % 7
    [] u = "sunweek"   -> f.wd - 1
WeekUnits == {"week", "isoweek", "monthweek", "sunweek"}
\* the week of f is cut short by the end of the year / month (1..3 days long)
ShortWeek(u, f) == u \in WeekUnits /\ NextBDay(u, f) - TruncDay(u, f) < 7

\* documented midpoint rule, at day granularity (h = hour of the day, 0 for dates):
\*   century: year 51 of the century; year: 1 July; quarter: the 16th of the
\*   second month; month: the 16th; weeks: the fifth day (noon of the fourth);
\*   day: 12:00.  Not used for "isoyear" (own rule) and not in short weeks.
UpDay(u, f, h) ==
  CASE u = "century" -> ((f.y - 1) % 100) + 1 >= 51
    [] u = "year"    -> f.m >= 7
    [] u = "quarter" -> LET mq == ((f.m - 1) % 3) + 1 IN mq = 3 \/ (mq = 2 /\ f.d >= 16)
    [] u = "month"   -> f.d >= 16
    [] u \in WeekUnits -> WeekPos(u, f) >= 4 \/ (WeekPos(u, f) = 3 /\ h >= 12)
    [] u = "day"     -> h >= 12

\* Set of day numbers the rounding of a value on day f (hour h) may return,
\* at the strength of the documented rule:
\*  - ISO year: July onward -> start of the following ISO year, else truncation;
\*  - short last week of a year/month: the rule names only full weeks, so
\*    either adjacent boundary is allowed (a value ON the boundary stays);
\*  - otherwise exactly the boundary chosen by the midpoint rule.
RoundDays(u, f, h, onBoundary) ==
  IF u = "isoyear" THEN
       {IF f.m >= 7 THEN IsoYearStart(f.y + 1) ELSE TruncDay(u, f)}
  ELSE IF ShortWeek(u, f) THEN
       IF onBoundary THEN {TruncDay(u, f)} ELSE {TruncDay(u, f), NextBDay(u, f)}
  ELSE {IF UpDay(u, f, h) THEN NextBDay(u, f) ELSE TruncDay(u, f)}
=============================================================================
