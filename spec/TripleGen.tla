------------------------------ MODULE TripleGen -----------------------------
(***************************************************************************)
(* spec -> impl generator for the constructor side of C01: every            *)
(* (year, month, day) triple over Years x 0..14 x 0..33 and a set of raw    *)
(* day numbers, each with the verdict the specification demands (accepted  *)
(* with which day number, or rejected with which error gkind).  TLC checks  *)
(* on the way that "verdict = accepted" coincides with "names a real date" *)
(* (a date the calendar walker visits).  One GEN line per state.           *)
(***************************************************************************)
EXTENDS Cal, TLC

CONSTANTS Years,      \* set of years to enumerate
          RawDays     \* set of raw day numbers for try_from_days

VARIABLES gkind, gy, gm, gd
vars == <<gkind, gy, gm, gd>>

Init == \/ gkind = "ymd" /\ gy \in Years /\ gm \in 0..14 /\ gd \in 0..33
        \/ gkind = "day" /\ gy \in RawDays /\ gm = 0 /\ gd = 0
Next == UNCHANGED vars
Spec == Init /\ [][Next]_vars

\* "names a real date": in-range fields whose day number maps back to them
Real(yy, mm, dd) ==
  /\ yy \in MinYear..MaxYear /\ mm \in 1..12 /\ dd \in 1..31
  /\ LET n == DaysFromCivil(yy, mm, dd) IN
       InDateRange(n) /\ CivilFromDays(n) = <<yy, mm, dd, DayOfYear(yy, mm, dd)>>

VerdictIsReal == gkind = "ymd" => /\ (YmdVerdict(gy, gm, gd) = 0) = Real(gy, gm, gd)
                                   /\ (YmdVerdict(gy, gm, gd) = 0) = (YmdKinds(gy, gm, gd) = {})
                                   /\ (YmdVerdict(gy, gm, gd) # 0 => YmdVerdict(gy, gm, gd) \in YmdKinds(gy, gm, gd))

Emit ==
  IF gkind = "ymd" THEN
    LET v == YmdVerdict(gy, gm, gd) IN
    PrintT(<<"GEN", "ymd", gy, gm, gd, v, IF v = 0 THEN DaysFromCivil(gy, gm, gd) ELSE 0, YmdKindsSeq(gy, gm, gd)>>)
  ELSE PrintT(<<"GEN", "day", gy, IF InDateRange(gy) THEN 0 ELSE EDateOutOfRange>>)
=============================================================================
