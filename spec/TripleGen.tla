------------------------------ MODULE TripleGen -----------------------------
(***************************************************************************)
(* spec -> impl generator for the constructor side of C01: every            *)
(* (year, month, day) triple over Years x 0..14 x 0..33 and a set of raw    *)
(* day numbers, each with the verdict the specification demands (accepted  *)
(* with which day number, or rejected with which error kind).  TLC checks  *)
(* on the way that "verdict = accepted" coincides with "names a real date" *)
(* (a date the calendar walker visits).  One GEN line per state.           *)
(***************************************************************************)
EXTENDS Cal, TLC

CONSTANTS Years,      \* set of years to enumerate
          RawDays     \* set of raw day numbers for try_from_days

VARIABLES kind, y, m, d
vars == <<kind, y, m, d>>

Init == \/ kind = "ymd" /\ y \in Years /\ m \in 0..14 /\ d \in 0..33
        \/ kind = "day" /\ y \in RawDays /\ m = 0 /\ d = 0
Next == UNCHANGED vars
Spec == Init /\ [][Next]_vars

\* "names a real date": in-range fields whose day number maps back to them
Real(yy, mm, dd) ==
  /\ yy \in MinYear..MaxYear /\ mm \in 1..12 /\ dd \in 1..31
  /\ LET n == DaysFromCivil(yy, mm, dd) IN
       InDateRange(n) /\ CivilFromDays(n) = <<yy, mm, dd, DayOfYear(yy, mm, dd)>>

VerdictIsReal == kind = "ymd" => ((YmdVerdict(y, m, d) = 0) = Real(y, m, d))

Emit ==
  IF kind = "ymd" THEN
    LET v == YmdVerdict(y, m, d) IN
    PrintT(<<"GEN", "ymd", y, m, d, v, IF v = 0 THEN DaysFromCivil(y, m, d) ELSE 0>>)
  ELSE PrintT(<<"GEN", "day", y, IF InDateRange(y) THEN 0 ELSE EDateOutOfRange>>)
=============================================================================
