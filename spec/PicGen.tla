------------------------------ MODULE PicGen --------------------------------
(***************************************************************************)
(* spec -> impl generator for C19 (and C04): every string up to length K   *)
(* over Alphabet, with the verdict of the reference tokenizer (Pic.tla)    *)
(* and the text Render.tla produces for a probe timestamp whose fields are *)
(* pairwise distinct (2007-04-05, a Thursday, 13:08:09.123456).  The       *)
(* harness replays each line: Formatter::try_new(picture) must agree with  *)
(* the verdict and formatting the probe must produce exactly the text.     *)
(***************************************************************************)
EXTENDS Render, TLC

CONSTANTS Alphabet, K, Prefixes   \* strings = prefix \o (any string over Alphabet of length <= K)

VARIABLES picture,     \* the picture built so far
          appended      \* symbols appended to the prefix
Init == picture \in Prefixes /\ appended = 0
Next == appended < K /\ appended' = appended + 1 /\ \E c \in Alphabet : picture' = Append(picture, c)
Spec == Init /\ [][Next]_<<picture, appended>>

Probe == <<13608, 47289, 123456>>       \* 2007-04-05 13:08:09.123456

\* (A) facts about the tokenizer checked in every state
LexFacts ==
  LET t == Lex(picture) IN
  /\ IsInvalid(t) \/ \A i \in 1..Len(t) : t[i][1] # "invalid"
  \* blank runs are maximal: never two adjacent blank tokens
  /\ ~IsInvalid(t) => \A i \in 1..(Len(t) - 1) : ~(t[i][1] = "blank" /\ t[i + 1][1] = "blank")

Emit ==
  LET t == Lex(picture)
      verdict == IF Unjudged(picture) THEN 2 ELSE IF ~IsInvalid(t) /\ Len(t) <= MaxFields THEN 1 ELSE 0
      text == IF verdict = 1 THEN RenderTokens(t, "TS", Probe) ELSE <<1, 0>>
  IN PrintT(<<"GEN", picture, verdict, IF IsInvalid(t) THEN 0 ELSE Len(t), text>>)
=============================================================================
