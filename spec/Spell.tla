------------------------------- MODULE Spell --------------------------------
(***************************************************************************)
(* Parsing (C05, C06, C18): which texts denote which values.               *)
(*                                                                         *)
(* SpellText(toks, ty, v, st, ov) writes value v under the token sequence  *)
(* toks in lenient style st (padded / unpadded / '+'-signed numbers, extra *)
(* blanks, any letter case of names and AM/PM, month names for MM,         *)
(* fraction digits, omitted trailing time fields); ov optionally overrides *)
(* one component with an out-of-domain number (a perturbation).            *)
(* Denote(toks, ty, g, clock) is the value such a text denotes: the fields *)
(* that are written, completed from the clock for the fields that are not  *)
(* (C18), with the consistency demands of C05 (day-of-year vs month/day,   *)
(* weekday vs date), or Err.                                               *)
(* Values and field records as in Render.tla; texts are Seq of 1-char      *)
(* strings.                                                                *)
(***************************************************************************)
EXTENDS Render, FiniteSets

(* ------------------------------ styles --------------------------------- *)
\* st = [num, gap, ncase, mm, frac, cut]
\*   num   "pad" as rendered | "bare" no leading zeros | "plus" leading '+'
\*   gap   number of extra blanks written before every token and at the end
\*   ncase 0 as the token's own style | 1 UPPER | 2 Capital | 3 lower | 4 mIXED
\*   mm    "num" | "full" | "abbr"   month name where MM expects a number
\*   frac  <<"exact">> | <<"trim">> (trailing zeros dropped) | <<"extra", digits...>> appended beyond the 6th digit
\*   cut   0, or k > 0: the text stops before token k (omitted trailing time fields)
NoOv == [kind |-> "none", val |-> 0]

Mixed(word) == [i \in 1..Len(word) |-> IF i % 2 = 0 THEN UpperOf(word[i]) ELSE LowerOf(word[i])]
Recase(word, tokstyle, ncase) ==
  CASE ncase = 0 -> Styled(word, tokstyle)
    [] ncase \in {1, 2, 3} -> Styled(word, ncase)
    [] ncase = 4 -> Mixed(word)

Num(v, w, st) ==
  CASE st.num = "pad"  -> Pad(v, w)
    [] st.num = "bare" -> Digits(v)
    [] st.num = "plus" -> <<"+">> \o Pad(v, w)

RECURSIVE TrimZeros(_)
TrimZeros(ds) == IF Len(ds) > 1 /\ ds[Len(ds)] = "0" THEN TrimZeros(SubSeq(ds, 1, Len(ds) - 1)) ELSE ds

\* digits written for a fraction token of precision p (0 = FF, up to 9 digits when parsing)
FracDigits(us, p, st) ==
  LET maxd == IF p = 0 THEN 9 ELSE p
      six  == Pad(us, 6)
      base == IF maxd <= 6 THEN SubSeq(six, 1, maxd) ELSE six
      extra == Tail(st.frac)
  IN CASE st.frac[1] = "exact" -> IF p = 0 THEN six ELSE IF maxd <= 6 THEN base ELSE six \o Zeros(maxd - 6)
       [] st.frac[1] = "trim"  -> TrimZeros(base)
       [] OTHER -> IF maxd > 6 THEN six \o SubSeq(extra, 1, IF Len(extra) < maxd - 6 THEN Len(extra) ELSE maxd - 6)
                   ELSE base

\* value of an overridable numeric component
Ov(kind, natural, ov) == IF ov.kind = kind THEN ov.val ELSE natural

\* text of one token when parsing-style spelled; <<"#err">> if the token cannot be written for this type
SpellToken(tok, ty, f, st, ov) ==
  LET kind == tok[1]  p == tok[2] IN
  CASE kind = "blank" -> Spaces(p)
    [] kind = "lit"   -> <<p>>
    [] kind = "year"  -> IF HasDate(ty) THEN
                            (IF ov.kind = "yearneg" THEN <<"-">> ELSE <<>>) \o
                            (IF p = 4 THEN Num(f.y, 4, st)
                             ELSE IF st.num = "plus" THEN Pad(f.y % Pow10(p), p)      \* a sign is not offered on short years
                             ELSE Num(f.y % Pow10(p), p, st))
                         ELSE IF ty = "YM" THEN (IF f.neg THEN <<"-">> ELSE IF st.num \in {"pad", "plus"} THEN <<"+">> ELSE <<>>) \o
                                                 (IF st.num = "bare" THEN Digits(f.y) ELSE Pad(f.y, p))
                         ELSE NA
    [] kind = "mm"    -> IF HasDate(ty) THEN
                            (IF st.mm = "full" /\ ov.kind # "mm" THEN Recase(Chars(MonthNames[f.m]), 2, st.ncase)
                             ELSE IF st.mm = "abbr" /\ ov.kind # "mm" THEN Recase(SubSeq(Chars(MonthNames[f.m]), 1, 3), 2, st.ncase)
                             ELSE (IF ov.kind = "mmneg" THEN <<"-">> ELSE <<>>) \o Num(Ov("mm", f.m, ov), 2, st))
                         ELSE IF ty = "YM" THEN Num(Ov("mm", f.m, ov), 2, st)
                         ELSE NA
    [] kind = "dd"    -> IF HasDate(ty) THEN (IF ov.kind = "ddneg" THEN <<"-">> ELSE <<>>) \o Num(Ov("dd", f.d, ov), 2, st)
                         ELSE IF ty = "DT" THEN (IF f.neg THEN <<"-">> ELSE IF st.num \in {"pad", "plus"} THEN <<"+">> ELSE <<>>) \o
                                                 (IF st.num = "bare" THEN Digits(f.d) ELSE Pad(f.d, 2))
                         ELSE NA
    [] kind = "hh24"  -> IF HasTime(ty) THEN (IF ov.kind = "hhneg" THEN <<"-">> ELSE <<>>) \o Num(Ov("hh24", f.h, ov), 2, st) ELSE NA
    [] kind = "hh12"  -> IF HasTime(ty) /\ ty # "DT" THEN Num(Ov("hh12", Hour12(f.h), ov), 2, st) ELSE NA
    [] kind = "mi"    -> IF HasTime(ty) THEN Num(Ov("mi", f.mi, ov), 2, st) ELSE NA
    [] kind = "ss"    -> IF HasTime(ty) THEN Num(Ov("ss", f.s, ov), 2, st) ELSE NA
    [] kind = "ff"    -> IF HasFrac(ty) THEN FracDigits(Ov("us", f.us, ov), p, st) ELSE NA
    [] kind = "ampm"  -> IF HasTime(ty) /\ ty # "DT" THEN
                            LET w == AmPmWord(IF p \in {1, 2} THEN 1 ELSE 3, f.h) IN
                            IF st.ncase \in {3, 4} THEN Recase(w, 3, st.ncase) ELSE IF st.ncase = 0 THEN AmPmWord(p, f.h) ELSE w
                         ELSE NA
    [] kind = "month" -> IF HasDate(ty) THEN Recase(Chars(MonthNames[f.m]), p, st.ncase) ELSE NA
    [] kind = "mon"   -> IF HasDate(ty) THEN Recase(SubSeq(Chars(MonthNames[f.m]), 1, 3), p, st.ncase) ELSE NA
    [] kind = "day"   -> IF HasDate(ty) THEN Recase(Chars(DayNames[Ov("wd", f.wd, ov)]), p, st.ncase) ELSE NA
    [] kind = "dy"    -> IF HasDate(ty) THEN Recase(SubSeq(Chars(DayNames[Ov("wd", f.wd, ov)]), 1, 3), p, st.ncase) ELSE NA
    [] kind = "d"     -> IF HasDate(ty) THEN <<DigitChars[Ov("wd", f.wd, ov) + 1]>> ELSE NA
    [] kind = "ddd"   -> IF HasDate(ty) THEN Num(Ov("ddd", f.doy, ov), 3, st) ELSE NA
    [] kind = "w"     -> <<"1">>
    [] kind = "ww"    -> <<"0", "1">>

\* tokens that may be left out at the end of the text (dates, times, timestamps)
Tolerant(tok) == tok[1] \in {"blank", "hh24", "hh12", "mi", "ss", "ff", "ampm"} \/
                 (tok[1] = "lit" /\ tok[2] \in {"-", ":", "."})
\* (a meridian left out while its 12-hour field is written is not among the
\*  documented leniencies - such cuts are not offered)
CutOK(toks, ty, k) ==
  /\ ty \notin {"YM", "DT"} /\ k >= 1 /\ k <= Len(toks)
  /\ \A j \in k..Len(toks) : Tolerant(toks[j])
  /\ ~((\E j \in k..Len(toks) : toks[j][1] = "ampm") /\ (\E j \in 1..(k - 1) : toks[j][1] = "hh12"))

RECURSIVE SpellFrom(_, _, _, _, _, _, _)
SpellFrom(toks, i, last, ty, f, st, ov) ==
  IF i > last THEN Spaces(st.gap)
  ELSE LET t == SpellToken(toks[i], ty, f, st, ov) IN
       IF t = NA THEN NA
       ELSE LET rest == SpellFrom(toks, i + 1, last, ty, f, st, ov) IN
            IF rest = NA THEN NA ELSE Spaces(st.gap) \o t \o rest

\* a number field directly followed by another number field: only fixed-width
\* (padded, exact-fraction) writing is unambiguous there
DigitStartTok(tok) == tok[1] \in {"year", "mm", "dd", "ddd", "hh24", "hh12", "mi", "ss", "ff", "d", "w", "ww"}
Undelimited(toks) == \E j \in 1..(Len(toks) - 1) : DigitStartTok(toks[j]) /\ DigitStartTok(toks[j + 1])

\* the text; NA when some token cannot be written for the type, the cut is not
\* allowed, or the style would be ambiguous for this picture
SpellText(toks, ty, v, st, ov) ==
  LET f == Fields(ty, v)
      last == IF st.cut = 0 THEN Len(toks) ELSE st.cut - 1
  IN IF st.cut # 0 /\ ~CutOK(toks, ty, st.cut) THEN NA
     ELSE IF Undelimited(toks) /\ (st.num # "pad" \/ st.frac[1] # "exact" \/ st.mm # "num") THEN NA
     ELSE SpellFrom(toks, 1, last, ty, f, st, ov)

(* ------------------------------ denotation ------------------------------ *)
HasKind(toks, last, kinds) == \E j \in 1..last : toks[j][1] \in kinds
FirstOf(toks, last, kinds) == toks[CHOOSE j \in 1..last : toks[j][1] \in kinds /\ \A q \in 1..(j - 1) : toks[q][1] \notin kinds]

\* half-up value (in microseconds, may be 1000000) of the fraction digits written
FracValue(us, p, st) ==
  LET ds == FracDigits(us, p, st)  n == Len(ds) IN
  IF n <= 6 THEN us - (us % Pow10(6 - (IF n = 0 THEN 6 ELSE n)))    \* the digits written are a prefix of the six
  ELSE \* six digits of us followed by extra digits e: round half up on the first extra digit
       LET e1 == CHOOSE dgt \in 0..9 : DigitChars[dgt + 1] = ds[7] IN us + (IF e1 >= 5 THEN 1 ELSE 0)

\* The value denoted by what was written (tokens 1..last of toks, spelled from
\* the fields f of a value of type ty), under clock c = <<y, m, d, ...>>:
\* <<0, value>> or <<1, 0>> (an error)
DErr == <<1, 0>>
Denote(toks, ty, f, st, c) ==
  LET last == IF st.cut = 0 THEN Len(toks) ELSE st.cut - 1
      has(kinds) == HasKind(toks, last, kinds)
      \* ---- date part
      yrtok == FirstOf(toks, last, {"year"})
      y == IF has({"year"}) THEN
              (IF yrtok[2] = 4 THEN f.y ELSE c[1] - (c[1] % Pow10(yrtok[2])) + (f.y % Pow10(yrtok[2])))
           ELSE c[1]
      hasMonth == has({"mm", "mon", "month"})
      hasDay == has({"dd"})
      hasDoy == has({"ddd"})
      doyOK == f.doy >= 1 /\ f.doy <= YearLen(y)
      md == IF hasDoy /\ doyOK /\ y >= 1 THEN MonthDayOfDoy(y, f.doy) ELSE <<0, 0>>
      m == IF hasMonth THEN f.m ELSE IF hasDoy THEN md[1] ELSE c[2]
      d == IF hasDay THEN f.d ELSE IF hasDoy THEN md[2] ELSE 1
      dateOK == /\ y >= MinYear /\ y <= MaxYear
                /\ (hasDoy => doyOK /\ md = <<m, d>>)
                /\ YmdVerdict(y, m, d) = 0
                /\ (has({"day", "dy", "d"}) => Dow(DaysFromCivil(y, m, d)) = f.wd)
      n == DaysFromCivil(y, m, d)
      \* ---- time part
      h12given == has({"hh12"})
      apgiven == has({"ampm"})
      h12inpic == HasKind(toks, Len(toks), {"hh12"})
      \* a 24-hour field left out counts as 0; a 12-hour field left out counts as 12 (C18);
      \* a meridian that is written turns the 12-hour value into the hour of the day
      hour == IF has({"hh24"}) THEN f.h
              ELSE IF ~h12inpic THEN 0
              ELSE LET typed == IF h12given THEN Hour12(f.h) ELSE 12 IN
                   IF apgiven THEN (IF f.h < 12 THEN typed % 12 ELSE (typed % 12) + 12)
                   ELSE typed
      mi == IF has({"mi"}) THEN f.mi ELSE 0
      sc == IF has({"ss"}) THEN f.s ELSE 0
      fftok == FirstOf(toks, last, {"ff"})
      us == IF has({"ff"}) THEN FracValue(f.us, fftok[2], st) ELSE 0
      tod == Norm(<<0, SodOf(hour, mi, sc), us>>)          \* carry of a rounded-up fraction
  IN
  CASE ty = "D"  -> IF dateOK THEN <<0, n>> ELSE DErr
    [] ty = "T"  -> IF tod[1] = 0 THEN <<0, <<tod[2], tod[3]>> >> ELSE DErr
    [] ty = "TS" -> IF dateOK /\ TsInRange(<<n + tod[1], tod[2], tod[3]>>) THEN <<0, <<n + tod[1], tod[2], tod[3]>> >> ELSE DErr
    [] ty = "OD" -> IF dateOK THEN <<0, <<n, SodOf(hour, mi, sc), 0>> >> ELSE DErr
    \* an interval's sign is written with its leading field; without that field the text is unsigned
    [] ty = "YM" -> LET k == (IF has({"year"}) THEN f.y ELSE 0) * 12 + (IF has({"mm"}) THEN f.m ELSE 0) IN
                    <<0, IF f.neg /\ has({"year"}) THEN 0 - k ELSE k>>
    [] ty = "DT" -> LET x == Norm(<<IF has({"dd"}) THEN f.d ELSE 0, SodOf(hour, mi, sc), us>>) IN
                    IF DtInRange(x) THEN <<0, IF f.neg /\ has({"dd"}) THEN MRNeg(x) ELSE x>> ELSE DErr
(* C06: which pictures carry all of a value's information unambiguously *)
CountKinds(toks, kinds) == Cardinality({j \in 1..Len(toks) : toks[j][1] \in kinds})
DigitStart(tok) == tok[1] \in {"year", "mm", "dd", "ddd", "hh24", "hh12", "mi", "ss", "ff", "d", "w", "ww"}
Lossless(toks, ty) ==
  LET cnt(kinds) == CountKinds(toks, kinds)  n == Len(toks) IN
  /\ n >= 1 /\ n <= MaxFields /\ ~IsInvalid(toks)
  /\ \A j \in 1..n : toks[j][1] \notin {"w", "ww"} /\ TokenText(toks[j], ty, Fields(ty, IF ty \in {"D", "YM"} THEN 0 ELSE IF ty = "T" THEN <<0, 0>> ELSE <<0, 0, 0>>)) # NA
  /\ cnt({"year"}) <= 1 /\ cnt({"mm", "mon", "month"}) <= 1 /\ cnt({"dd"}) <= 1 /\ cnt({"ddd"}) <= 1
  /\ cnt({"hh24", "hh12"}) <= 1 /\ cnt({"mi"}) <= 1 /\ cnt({"ss"}) <= 1 /\ cnt({"ff"}) <= 1 /\ cnt({"ampm"}) <= 1
  /\ cnt({"day", "dy", "d"}) <= 1
  /\ (HasDate(ty) => /\ \E j \in 1..n : toks[j] = <<"year", 4>>
                     /\ ((cnt({"mm", "mon", "month"}) = 1 /\ cnt({"dd"}) = 1) \/ cnt({"ddd"}) = 1))
  /\ (ty \in {"T", "TS", "OD"} => /\ (cnt({"hh24"}) = 1 \/ (cnt({"hh12"}) = 1 /\ cnt({"ampm"}) = 1))
                                 /\ (cnt({"hh24"}) = 1 => cnt({"ampm"}) = 0)
                                 /\ cnt({"mi"}) = 1 /\ cnt({"ss"}) = 1)
  /\ (ty \in {"T", "TS"} => \E j \in 1..n : toks[j][1] = "ff" /\ (toks[j][2] = 0 \/ toks[j][2] >= 6))
  /\ (ty = "YM" => toks[1][1] = "year" /\ cnt({"mm"}) = 1)
  /\ (ty = "DT" => toks[1][1] = "dd" /\ cnt({"hh24"}) = 1 /\ cnt({"mi"}) = 1 /\ cnt({"ss"}) = 1
                   /\ \E j \in 1..n : toks[j][1] = "ff" /\ (toks[j][2] = 0 \/ toks[j][2] >= 6))
  \* variable-width fields are delimited: the interval's leading field and a fraction
  \* are not directly followed by another digit field
  /\ \A j \in 1..(n - 1) : (toks[j][1] = "ff" \/ (j = 1 /\ ty \in {"YM", "DT"})) => ~DigitStart(toks[j + 1])
  \* a month / weekday name is not directly followed by a letter field
  /\ \A j \in 1..(n - 1) : toks[j][1] \in {"month", "mon", "day", "dy"} =>
        toks[j + 1][1] \notin {"month", "mon", "day", "dy", "ampm"} /\ toks[j + 1] # <<"lit", "T">>
  /\ \A j \in 1..(n - 1) : toks[j][1] = "ampm" => toks[j + 1][1] \notin {"month", "mon", "day", "dy", "ampm"}

=============================================================================
