SPECIFICATION Spec
CONSTANT ChunkLen = 400
INVARIANT Judge
POSTCONDITION Accepted
CHECK_DEADLOCK FALSE
