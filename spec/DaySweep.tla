------------------------------ MODULE DaySweep ------------------------------
(***************************************************************************)
(* Walker-driven trace validation (impl -> spec).                          *)
(*                                                                         *)
(* The trace (ndjson, env TRACE) holds one record per day number, in       *)
(* increasing order, with everything the real crate returned for that day. *)
(* The specification IS the calendar walker: it steps NextFrame from       *)
(* record to record and judges each record against the walker's frame.     *)
(* Chains are seeded (from the closed forms justified by CalWalk) at the   *)
(* first record, after every gap, and every ChunkLen records so that TLC   *)
(* workers run in parallel; a chain runs on into the next chain's head     *)
(* where both must coincide (otherwise the number of distinct states       *)
(* exceeds the number of records and the trace is rejected).               *)
(*                                                                         *)
(* Mismatches are printed as <<"MISMATCH", dspos, n, failed-checks>> and the *)
(* run continues, so one run reports every disagreement.                   *)
(***************************************************************************)
EXTENDS Units, Val, TLC, Json, IOUtils, FiniteSets

CONSTANT ChunkLen

Rec == TLCEval(ndJsonDeserialize(IOEnv.TRACE))
NRec == Len(Rec)

VARIABLES dspos, frame
vars == <<dspos, frame>>

IsHead(i) == IF i = 1 THEN TRUE ELSE (Rec[i].n # Rec[i - 1].n + 1 \/ i % ChunkLen = 1)
Heads == {i \in 1..NRec : IsHead(i)}

Init == \E i \in Heads : dspos = i /\ frame = Frame(Rec[i].n)

Next == /\ dspos < NRec
        /\ Rec[dspos + 1].n = frame.n + 1
        /\ dspos' = dspos + 1
        /\ frame' = NextFrame(frame)

Spec == Init /\ [][Next]_vars

Has(r, k) == k \in DOMAIN r

(* ------------------------- per-record judgement ------------------------- *)
\* day-valued result of a Date operation against a set of allowed days
DayResOK(res, S) ==
  \/ (res[1] = 0 /\ res[2] \in S /\ InDateRange(res[2]))
  \/ (res[1] = 1 /\ \E v \in S : ~InDateRange(v))
\* instant-valued result (midnight of an allowed day)
MidResOK(res, S) ==
  \/ (res[1] = 0 /\ res[2][2] = 0 /\ res[2][3] = 0 /\ res[2][1] \in S /\ InDateRange(res[2][1]))
  \/ (res[1] = 1 /\ \E v \in S : ~InDateRange(v))
InstResOK(res, x) ==
  IF InDateRange(x[1]) THEN IsOk(res, x) ELSE IsErr(res)

CalChecks(r) == <<
  <<"ymd",   r.ymd = <<frame.y, frame.m, frame.d>> >>,
  <<"rt",    IsOk(r.rt, frame.n)>>,
  <<"fd",    IsOk(r.fd, frame.n)>>,
  <<"valid", r.valid = 1>>,
  <<"dow",   r.dow = frame.wd>>,
  <<"acc",   r.acc = <<frame.y, frame.m, frame.d>> >>,
  <<"ordp",  r.ordp = (IF frame.n > DateMin THEN 1 ELSE 0)>>,
  <<"eq",    r.eq = 1 /\ r.heq = 1>>,
  <<"ldm",   r.ldm = frame.n - frame.d + MonthLen(frame.y, frame.m)>>
>>

TruncDateOK(i, res) ==
  LET u == UnitSeq[i] IN
  IF u \in ClockUnits THEN IsOk(res, frame.n)
  ELSE DayResOK(res, {TruncDay(u, frame)})
RoundDateOK(i, res) ==
  LET u == UnitSeq[i] IN
  IF u \in ClockUnits THEN IsOk(res, frame.n)
  ELSE DayResOK(res, RoundDays(u, frame, 0, IsStart(u, frame)))

\* monotone in the input (C10, C11): compare with the previous record when it
\* is the previous day; ISO-year rounding is exempt as the property says
PrevIsYesterday == dspos > 1 /\ Rec[dspos - 1].n = frame.n - 1
MonoOK(prev, cur, i, exemptIso) ==
  (prev[i][1] = 0 /\ cur[i][1] = 0 /\ ~(exemptIso /\ UnitSeq[i] = "isoyear"))
     => prev[i][2] <= cur[i][2]

DtrChecks(r) ==
  [i \in 1..12 |-> <<"tr", i, TruncDateOK(i, r.tr[i])>>] \o
  [i \in 1..12 |-> <<"rd", i, RoundDateOK(i, r.rd[i])>>] \o
  [i \in 1..12 |-> <<"trmono", i, PrevIsYesterday /\ Has(Rec[dspos - 1], "tr") =>
                                     MonoOK(Rec[dspos - 1].tr, r.tr, i, FALSE)>>] \o
  [i \in 1..12 |-> <<"rdmono", i, PrevIsYesterday /\ Has(Rec[dspos - 1], "rd") =>
                                     MonoOK(Rec[dspos - 1].rd, r.rd, i, TRUE)>>]

\* timestamp / Oracle-date truncation and rounding at second-of-day s, microsecond us
TruncInstOK(i, res, s, us) ==
  LET u == UnitSeq[i] IN
  CASE u = "hour"   -> IsOk(res, <<frame.n, (s \div 3600) * 3600, 0>>)
    [] u = "minute" -> IsOk(res, <<frame.n, (s \div 60) * 60, 0>>)
    [] OTHER        -> MidResOK(res, {TruncDay(u, frame)})
RoundInstOK(i, res, s, us) ==
  LET u == UnitSeq[i] IN
  CASE u = "hour"   -> InstResOK(res, Norm(<<frame.n, ((s \div 3600) + (IF s % 3600 >= 1800 THEN 1 ELSE 0)) * 3600, 0>>))
    [] u = "minute" -> InstResOK(res, Norm(<<frame.n, ((s \div 60) + (IF s % 60 >= 30 THEN 1 ELSE 0)) * 60, 0>>))
    [] OTHER        -> MidResOK(res, RoundDays(u, frame, s \div 3600, IsStart(u, frame) /\ s = 0 /\ us = 0))

TmChecks(e) ==
  LET s == e.t[1]  us == e.t[2]  hms == Hms(s) IN
  (IF Has(e, "tr") THEN
     [i \in 1..12 |-> <<"ttr", i, TruncInstOK(i, e.tr[i], s, us)>>] \o
     [i \in 1..12 |-> <<"trd", i, RoundInstOK(i, e.rd[i], s, us)>>]
   ELSE <<>>) \o
  (IF Has(e, "otr") THEN
     [i \in 1..12 |-> <<"otr", i, TruncInstOK(i, e.otr[i], s, 0)>>] \o
     [i \in 1..12 |-> <<"ord", i, RoundInstOK(i, e.ord[i], s, 0)>>]
   ELSE <<>>) \o
  (IF Has(e, "us") THEN <<
     <<"us",   0, e.us = <<frame.n, s, us>> >>,
     <<"ext",  0, e.ext = <<frame.n, s, us>> >>,
     <<"tacc", 0, e.acc = <<frame.y, frame.m, frame.d, hms[1], hms[2], hms[3] * 1000000 + us>> >>,
     <<"dt",   0, e.dt = frame.n>>,
     <<"tt",   0, e.tt = <<s, us>> >>,
     <<"cmpp", 0, e.cmpp = (IF <<frame.n, s, us>> = TsMin THEN 0 ELSE 1)>>,
     <<"cmpd", 0, LET c == IF s = 0 /\ us = 0 THEN 0 ELSE 1 IN e.cmpd = <<c, -c>> >>
   >> ELSE <<>>) \o
  (IF Has(e, "of") THEN <<
     <<"of",   0, e.of = <<frame.n, s, 0>> >>,
     <<"on",   0, e.on = <<frame.n, s, 0>> >>,
     <<"ou",   0, IF us = 0 THEN IsOk(e.ou, <<frame.n, s, 0>>) ELSE IsErr(e.ou)>>,
     <<"oext", 0, e.oext = <<frame.n, s, 0>> >>
   >> ELSE <<>>)

\* C17: the three types agree.  Date results lifted to midnight must equal the
\* timestamp results at 00:00:00.000000; Oracle-date results must equal the
\* timestamp results at every whole second.  (Errors: only "is an error".)
Same(a, b) == a[1] = b[1] /\ (a[1] = 0 => a[2] = b[2])
Lift(res) == IF res[1] = 0 THEN <<0, <<res[2], 0, 0>> >> ELSE res
AgreeChecks(r, e) ==
  (IF Has(r, "tr") /\ Has(e, "tr") /\ e.t = <<0, 0>> THEN
     [i \in 1..12 |-> <<"agree_d_ts_tr", i, Same(Lift(r.tr[i]), e.tr[i])>>] \o
     [i \in 1..12 |-> <<"agree_d_ts_rd", i, Same(Lift(r.rd[i]), e.rd[i])>>]
   ELSE <<>>) \o
  (IF Has(e, "tr") /\ Has(e, "otr") /\ e.t[2] = 0 THEN
     [i \in 1..12 |-> <<"agree_ts_od_tr", i, Same(e.tr[i], e.otr[i])>>] \o
     [i \in 1..12 |-> <<"agree_ts_od_rd", i, Same(e.rd[i], e.ord[i])>>]
   ELSE <<>>)

\* every check of the current record: sequence of tuples whose last element is the verdict
AllChecks(r) ==
  (IF Has(r, "ymd") THEN LET cc == CalChecks(r) IN [k \in 1..Len(cc) |-> <<cc[k][1], 0, cc[k][2]>>] ELSE <<>>) \o
  (IF Has(r, "tr") THEN DtrChecks(r) ELSE <<>>)

Last(t) == t[Len(t)]
Failed(cs) == {<<c[1], c[2]>> : c \in {cs[k] : k \in 1..Len(cs)} \ {cs[k] : k \in {j \in 1..Len(cs) : Last(cs[j])}}}

RecOK ==
  LET r == Rec[dspos]
      ac  == AllChecks(r)
      ok1 == \A k \in 1..Len(ac) : Last(ac[k])
      ok2 == Has(r, "tm") => \A j \in 1..Len(r.tm) :
                LET cs == TmChecks(r.tm[j]) \o AgreeChecks(r, r.tm[j]) IN \A k \in 1..Len(cs) : Last(cs[k])
  IN /\ r.n = frame.n
     /\ ok1
     /\ ok2

\* the invariant never fails: it reports and lets TLC go on
Judge ==
  RecOK \/
  LET r == Rec[dspos] IN
  PrintT(<<"MISMATCH", dspos, frame.n,
           Failed(AllChecks(r)) \cup
           (IF Has(r, "tm") THEN UNION {{<<j, c[1], c[2]>> : c \in Failed(TmChecks(r.tm[j]) \o AgreeChecks(r, r.tm[j]))} : j \in 1..Len(r.tm)}
            ELSE {})>>)

\* acceptance: every record was reached, and reached with a single walker state
Accepted ==
  LET st == TLCGet("stats") IN
  IF st.distinct = NRec THEN PrintT(<<"ACCEPTED", NRec, st.distinct, st.generated>>)
  ELSE PrintT(<<"REJECTED", NRec, st.distinct, st.generated>>) /\ FALSE
=============================================================================
